#!/venv/bin/python
"""CLI: run.py <Cxx> [--tier quick|thorough] [--replay FILE]

exit 0: property held on everything explored (KNOWN-FINDING lines possible)
exit 1: VIOLATION property=<id> replay=<path>
exit 2: harness error
"""
import argparse
import os

os.environ.setdefault("TQDM_DISABLE", "1")  # y0 wraps some loops in progress bars
import sys

HERE = os.path.dirname(os.path.abspath(__file__))
REPO = os.environ.get("Y0_REPO", "/repo")


def main() -> int:
    ap = argparse.ArgumentParser()
    ap.add_argument("prop")
    ap.add_argument("--tier", default=os.environ.get("VERIF_TIER") or "quick", choices=["quick", "thorough"])
    ap.add_argument("--replay")
    args = ap.parse_args()
    # a run is a pure function of the tree and VERIF_SEED: pin the hash seed by re-exec
    if os.environ.get("PYTHONHASHSEED") != "0" and not os.environ.get("VF_KEEP_HASHSEED"):
        env = dict(os.environ, PYTHONHASHSEED="0")
        os.execve(sys.executable, [sys.executable, *sys.argv], env)
    sys.path.insert(0, os.path.join(REPO, "src"))
    sys.path.insert(0, HERE)
    os.environ.setdefault("Y0_VERIF", "1")
    import warnings

    warnings.simplefilter("ignore")
    import logging

    logging.disable(logging.CRITICAL)
    try:
        from vf import common
    except Exception as e:  # pragma: no cover
        print(f"HARNESS ERROR: {e!r}", file=sys.stderr)
        return 2
    prop = args.prop.upper()
    try:
        if args.replay:
            return common.run_replay(prop, args.replay)
        seed = int(os.environ.get("VERIF_SEED") or "1")
        return common.run_property(prop, args.tier, seed)
    except common.HarnessError as e:
        print(f"HARNESS ERROR: {e}", file=sys.stderr)
        return 2
    except Exception:
        import traceback

        traceback.print_exc()
        print("HARNESS ERROR: unexpected exception in driver", file=sys.stderr)
        return 2


if __name__ == "__main__":
    sys.exit(main())
