#!/venv/bin/python
"""Confirm an independently written seeded change and record it under /verif/seeded/<name>/.

usage: tools/seeded.py <name> <property> <dir-with-patch.diff+demo.py[+notes.md]> [check ...]
Steps (all in a scratch worktree of /repo's HEAD, removed afterwards):
  1. demo.py on /repo/src must exit 0; 2. patch applies; demo.py on the patched tree must exit 1;
  3. the repository's suite on the patched tree must still pass the 387 baseline tests;
  4. the given checks (default: the property's own) are run against the patched tree (quick tier, and thorough if quick misses).
"""
import json, os, shutil, subprocess, sys, tempfile, xml.etree.ElementTree as ET
HERE = os.path.dirname(os.path.dirname(os.path.abspath(__file__)))
WT = "/tmp/vf_seed_wt"
def sh(*a, **k): return subprocess.run(a, capture_output=True, text=True, **k)
def suite(root):
    base = json.load(open("/root/.vp/BASELINE.json"))
    with tempfile.TemporaryDirectory() as d:
        x = os.path.join(d, "r.xml")
        env = dict(os.environ, PYTHONPATH=os.path.join(root, "src"))
        subprocess.run(["/venv/bin/python", "-m", "pytest", "-q", "-p", "no:cacheprovider", "--timeout=900", "--continue-on-collection-errors", f"--junitxml={x}"], cwd=root, env=env, stdout=subprocess.DEVNULL, stderr=subprocess.DEVNULL)
        passed = {f"{tc.get('classname')}::{tc.get('name')}" for tc in ET.parse(x).getroot().iter("testcase") if not any(ch.tag in ("failure", "error", "skipped") for ch in tc)}
    missing = sorted(set(base["stable_pass"]) - passed)
    return len(passed), missing
def main():
    name, prop, src, *checks = sys.argv[1:]
    checks = checks or [prop]
    head = subprocess.check_output(["git", "-C", "/repo", "rev-parse", "HEAD"], text=True).strip()
    sh("git", "-C", "/repo", "worktree", "remove", "--force", WT)
    sh("git", "-C", "/repo", "worktree", "add", "-f", "--detach", WT, head)
    meta = {"name": name, "breaks_property": prop, "repo_head": head, "ran": []}
    try:
        demo = os.path.join(src, "demo.py")
        r0 = sh("/venv/bin/python", demo, "/repo/src"); meta["ran"].append({"cmd": "demo.py /repo/src", "exit": r0.returncode})
        ap = sh("git", "-C", WT, "apply", os.path.join(src, "patch.diff")); meta["ran"].append({"cmd": "git apply patch.diff", "exit": ap.returncode, "err": ap.stderr[-300:]})
        r1 = sh("/venv/bin/python", demo, os.path.join(WT, "src")); meta["ran"].append({"cmd": "demo.py <patched>/src", "exit": r1.returncode, "tail": (r1.stdout + r1.stderr)[-300:]})
        npass, missing = suite(WT); meta["ran"].append({"cmd": "pytest on patched tree", "passed": npass, "baseline_missing": missing})
        ok = r0.returncode == 0 and ap.returncode == 0 and r1.returncode == 1 and not missing
        meta["confirmed"] = ok
        results = {}
        if ok:
            for c in checks:
                for tier in os.environ.get("VF_SEEDED_TIERS", "quick,thorough").split(","):
                    ev = tempfile.mkdtemp(prefix="vf_ev_")
                    r = sh(os.path.join(HERE, "run.py"), c, "--tier", tier, env=dict(os.environ, Y0_REPO=WT, VF_EVIDENCE_DIR=ev))
                    lines = [l[:400] for l in r.stdout.splitlines() if l.startswith(("failure", "fixed finding", "VIOLATION"))]
                    results.setdefault(c, {})[tier] = {"exit": r.returncode, "first_failure": lines[:1], "summary": [l for l in r.stdout.splitlines() if l.startswith(c)][-1:]}
                    shutil.rmtree(ev, ignore_errors=True)
                    if r.returncode == 1:
                        break
        meta["checks"] = results
        meta["caught_by"] = sorted(c for c, t in results.items() if any(v["exit"] == 1 for v in t.values()))
    finally:
        sh("git", "-C", "/repo", "worktree", "remove", "--force", WT)
    out = os.path.join(HERE, "seeded", name); os.makedirs(out, exist_ok=True)
    for f in ("patch.diff", "demo.py", "notes.md"):
        if os.path.exists(os.path.join(src, f)) and os.path.abspath(src) != os.path.abspath(out): shutil.copy(os.path.join(src, f), os.path.join(out, f))
    meta["needs_to_manifest"] = "see notes.md"
    old = os.path.join(out, "meta.json")
    if os.path.exists(old):  # keep the hand-written description of an earlier confirmation
        prev = json.load(open(old))
        for k in ("what_the_change_does", "needs_to_manifest", "result"):
            if k in prev:
                meta[k] = prev[k]
    json.dump(meta, open(os.path.join(out, "meta.json"), "w"), indent=1)
    print(json.dumps({k: meta[k] for k in ("name", "confirmed", "caught_by")}), {c: {t: v["exit"] for t, v in r.items()} for c, r in meta.get("checks", {}).items()})
main()
