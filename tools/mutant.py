#!/venv/bin/python
"""Sensitivity testing: apply a textual mutation to a scratch worktree of /repo and run checks against it.

usage: tools/mutant.py <file-relative-to-src/y0> <old> <new> <prop> [<prop> ...]
Evidence of these runs goes to a temporary directory, never to /verif/evidence.
"""
import os, subprocess, sys, tempfile, shutil
WT = "/tmp/vf_mutant_wt"
def sh(*a, **k): return subprocess.run(a, **k)
def main():
    rel, old, new, *props = sys.argv[1:]
    if not os.path.isdir(WT):
        sh("git", "-C", "/repo", "worktree", "add", "-f", "--detach", WT, "HEAD", stdout=subprocess.DEVNULL, stderr=subprocess.DEVNULL)
    sh("git", "-C", WT, "checkout", "-q", "--detach", subprocess.check_output(["git", "-C", "/repo", "rev-parse", "HEAD"], text=True).strip())
    sh("git", "-C", WT, "checkout", "-q", "--", ".")
    p = os.path.join(WT, "src/y0", rel)
    s = open(p).read()
    if s.count(old) < 1:
        print("MUTATION SITE NOT FOUND"); return 2
    open(p, "w").write(s.replace(old, new, 1))
    ev = tempfile.mkdtemp(prefix="vf_ev_")
    try:
        for prop in props:
            env = dict(os.environ, Y0_REPO=WT, VF_EVIDENCE_DIR=ev)
            r = sh(os.path.join(os.path.dirname(os.path.dirname(os.path.abspath(__file__))), "run.py"), prop, "--tier", os.environ.get("TIER", "quick"), env=env, capture_output=True, text=True)
            lines = [l[:300] for l in (r.stdout + r.stderr).splitlines() if l.startswith(("VIOLATION", "failure", "fixed finding", "HARNESS", prop))]
            print(f"[{prop}] exit={r.returncode}", "CAUGHT" if r.returncode == 1 else "MISSED" if r.returncode == 0 else "ERROR")
            for l in lines[:3] + lines[-1:]: print("   ", l)
    finally:
        shutil.rmtree(ev, ignore_errors=True)
        sh("git", "-C", WT, "checkout", "-q", "--", ".")
    return 0
sys.exit(main())
