"""'For every distribution and value assignment' semantics for graph-free expression laws (C10-C13)."""

from __future__ import annotations

import itertools as itt

from .model import FreeTables
from .sem import Evaluator, FreeVariable, MultiWorld, Undefined

DEFAULT_NAMES = ["A", "B", "C", "D"]


def has_worlds(spec) -> bool:
    """Does the expression spec contain a probability term whose variables live in different worlds?"""
    if isinstance(spec, dict):
        if spec.get("t") == "P" and spec.get("vdo"):
            return True
        return any(has_worlds(v) for v in spec.values())
    if isinstance(spec, list):
        return any(has_worlds(v) for v in spec)
    return False


def make_world_eval(names, mseed: int):
    """Semantics for expressions with multi-world (counterfactual joint) terms: one functional model with shared
    exogenous noise per population, on a complete DAG (random order) whose nodes all share latent causes, so that no
    independence holds by construction.  Single-world terms read the model's interventional tables, multi-world terms
    its joint counterfactual probabilities; all of them are therefore consistent with one another (marginalising a
    multi-world term gives the single-world term).  Single-world tables are positive; multi-world events can have
    structural zeros (consistency), so callers skip assignments at which either side is undefined."""
    from .common import SplitMix, derive_seed
    from .model import FSCM, FreeTables

    names = sorted(names)
    order = SplitMix(derive_seed(mseed, "world-order")).shuffle(names)
    pairs = [[order[i], order[j]] for i in range(len(order)) for j in range(i + 1, len(order))]
    g = {"nodes": order, "di": pairs, "bi": pairs}
    models = {}

    def model(pop):
        m = models.get(pop)
        if m is None:
            m = models[pop] = FSCM(g, derive_seed(mseed, "world", str(pop)), max_card=2, clique_mode=True)
        return m

    card = {n: 2 for n in names}
    ft = FreeTables(names, card, mseed)
    ev = Evaluator(card, lambda pop, do: model(pop).joint(do), q_provider=ft.qfactor, cf_provider=lambda pop, items: model(pop).prob_event(items))
    return ev, card


def make_eval(names, mseed: int, card3=None, worlds=False):
    if worlds:
        return make_world_eval(names, mseed)
    card = {n: 2 for n in names}
    if card3 in card:
        card[card3] = 3
    ft = FreeTables(names, card, mseed)
    ev = Evaluator(card, lambda pop, do: ft.joint(pop, do), q_provider=ft.qfactor, cf_provider=ft.cf)
    return ev, card


def envs(names, card):
    names = sorted(names)
    for vals in itt.product(*[range(card[n]) for n in names]):
        yield dict(zip(names, vals))


def value_vector(ev, expr, names, card):
    """Tuple of values over all environments; an entry is the string 'undef' where evaluation divides by zero."""
    out = []
    for env in envs(names, card):
        try:
            out.append(ev.ev(expr, env))
        except Undefined:
            out.append("undef")
    return tuple(out)


def first_difference(ev, e1, e2, names, card, skip_undefined=False):
    """None if e1 and e2 denote the same function, else a detail dict (first differing environment).
    ``skip_undefined``: assignments at which either side is undefined are not compared (multi-world semantics)."""
    for env in envs(names, card):
        try:
            v1 = ev.ev(e1, env)
        except Undefined:
            v1 = "undef"
        try:
            v2 = ev.ev(e2, env)
        except Undefined:
            v2 = "undef"
        if skip_undefined and "undef" in (v1, v2):
            continue
        if v1 != v2:
            return {"assignment": env, "left_value": str(v1), "right_value": str(v2)}
    return None


def ambiguous_twin_binding(expr, bound=frozenset()) -> bool:
    """A summation range binds a name that one probability term under it carries in two different worlds
    (``Sum[A](P(A, A @ -C))``).  The DSL gives that no settled meaning -- one shared value for both copies, or every
    copy marginalised separately (the source marks the case with a FIXME) -- so such expressions are outside the domain
    of the semantic checks."""
    from y0.dsl import Fraction, Probability, Product, Sum

    if isinstance(expr, Probability):
        # only copies on the CHILD side are ambiguous ("marginalise every copy" is a reading of outcomes); a copy behind
        # the conditioning bar is a condition on the bound value under any reading, so Sum[Y](P(Y | Y @ -X)) is in
        # the domain
        seen = {}
        for v in tuple(expr.children):
            if v.name in bound:
                seen.setdefault(v.name, set()).add(v)
        return any(len(vs) > 1 for vs in seen.values())
    if isinstance(expr, Product):
        return any(ambiguous_twin_binding(x, bound) for x in expr.expressions)
    if isinstance(expr, Sum):
        return ambiguous_twin_binding(expr.expression, bound | {r.name for r in expr.ranges})
    if isinstance(expr, Fraction):
        return ambiguous_twin_binding(expr.numerator, bound) or ambiguous_twin_binding(expr.denominator, bound)
    return False
