"""C10 — canonicalisation never changes what an expression means."""

from __future__ import annotations

from hypothesis import strategies as st

from .. import exprgen
from ..common import Outcome, SplitMix
from ..exprsem import DEFAULT_NAMES, ambiguous_twin_binding, first_difference, has_worlds, make_eval
from ..sem import FreeVariable, MultiWorld

ID = "C10"
RULE = (
    "Generate a well-scoped expression tree with the raw constructors (depth <=4 over names A..D: joint / conditional / "
    "interventional / population-tagged probabilities with value marks, products incl. nested ones, sums incl. ranges "
    "that are subscripts or not free, fractions with zero-free denominators, One, Zero) and an ordering (permutation of "
    "the names, optionally with extra names, or None). Oracle: with an independent arbitrary positive table per "
    "(population, intervention values) -- 'for every distribution' -- and every environment, "
    "sem(canonicalize(e, o)) == sem(e) exactly; an exception or a division by zero introduced by canonicalisation "
    "is a violation. Second relation: for b = a presentation permutation or a one-token edit of a, if "
    "canonical_expr_equal(a, b) then sem(a) == sem(b). Non-trivial = canonical form differs structurally from the input and "
    "the expression has >=3 nodes; distinct = distinct spec."
)
ASSUMPTIONS = [
    "expressions bounded to depth 4 over 4 names (cardinalities 2, one name possibly 3)",
    "each probability term mentions a name at most once (children, parents, subscripts disjoint); denominators contain no Zero literal",
    "semantics per vf/sem.py; distributions are arbitrary positive tables (no graph is involved in this law)",
    "Q-factors are outside canonicalize's documented domain (TypeError) and are not generated here",
]
BUDGET = {
    "quick": dict(examples=1200, shards=16, seconds=200),
    "thorough": dict(examples=12000, shards=16, seconds=2400),
}
ESSENTIAL_LABELS = {t: ["has:sum", "has:frac", "has:prod", "sum-collapsed", "declared-equal", "declared-unequal"] for t in ("quick", "thorough")}


@st.composite
def _case(draw):
    depth = draw(st.sampled_from([1, 2, 2, 3, 3, 4]))
    spec = draw(exprgen.expr_specs(depth=depth, mixed_worlds=True))
    mode = draw(st.sampled_from(["perm", "perm+extra", "none"]))
    order = None
    if mode != "none":
        order = list(draw(st.permutations(DEFAULT_NAMES)))
        if mode == "perm+extra":
            order = order + ["E", "Z"]
    return {"spec": spec, "order": order, "mseed": draw(st.integers(0, 2**32)), "card3": draw(st.sampled_from([None, None, "A", "C"])), "edit": draw(st.integers(0, 2**16))}


def strategy(tier):
    return _case()


def kinds(s, acc=None):
    acc = set() if acc is None else acc
    acc.add(s["t"])
    for k in ("xs",):
        for x in s.get(k, []):
            kinds(x, acc)
    for k in ("x", "n", "d"):
        if k in s:
            kinds(s[k], acc)
    if s["t"] == "P":
        if s["pop"]:
            acc.add("pop")
        if s["do"]:
            acc.add("do")
        if s["pa"]:
            acc.add("cond")
        if s.get("vdo"):
            acc.add("mixed-worlds")
    return acc


def size(s):
    return 1 + sum(size(x) for x in s.get("xs", [])) + sum(size(s[k]) for k in ("x", "n", "d") if k in s)


def one_token_edit(s, rng):
    """Change one leaf slightly (flip a value mark, or swap a child name) -- usually changes the meaning."""
    import copy

    s = copy.deepcopy(s)
    leaves = []

    def walk(x):
        if x["t"] == "P":
            leaves.append(x)
        for y in x.get("xs", []):
            walk(y)
        for k in ("x", "n", "d"):
            if k in x:
                walk(x[k])

    walk(s)
    if not leaves:
        return s
    leaf = leaves[rng.below(len(leaves))]
    ch = leaf["ch"][rng.below(len(leaf["ch"]))]
    ch[1] = {None: True, True: False, False: None}[ch[1]]
    return s


def check(case) -> Outcome:
    from y0.dsl import Variable
    from y0.mutate.canonicalize_expr import canonical_expr_equal, canonicalize

    spec = case["spec"]
    out = Outcome(key=str(spec) + str(case["order"]))
    labels = {"has:" + k for k in kinds(spec)}
    names = list(DEFAULT_NAMES)
    # expressions with multi-world terms are read in a functional model with shared noise (so that terms in different
    # worlds are mutually consistent); assignments where either side is undefined (structural zeros) are not compared
    worlds = has_worlds(spec)
    ev, card = make_eval(names, case["mseed"], case["card3"], worlds=worlds)
    e = exprgen.build_raw(spec)
    text = e.to_y0()

    def fail(kind, **kw):
        out.ok = False
        out.detail = {"kind": kind, "expression": text, "spec": spec, "order": case["order"], "mseed": case["mseed"], "card": card, **kw}
        out.labels = sorted(labels)
        return out

    # the ordering is typed Sequence[str | Variable]: names, variables, or a mixture
    order = None if case["order"] is None else [(n if (case["edit"] + i) % 3 == 0 else Variable(n)) for i, n in enumerate(case["order"])]
    try:
        c = canonicalize(e, order)
    except Exception as ex:
        return fail("canonicalize-raised", exc=repr(ex)[:300])
    if worlds and (ambiguous_twin_binding(e) or ambiguous_twin_binding(c)):
        labels.add("sum-binds-a-name-present-in-two-worlds(outside the domain)")
        out.labels = sorted(labels)
        return out
    try:
        d = first_difference(ev, e, c, names, card, skip_undefined=worlds)
    except (FreeVariable, MultiWorld) as ex:
        return fail("canonical-form-not-evaluable", exc=repr(ex), canonical=c.to_y0())
    if d:
        return fail("meaning-changed", canonical=c.to_y0(), **d)
    if c != e:
        labels.add("changed")
        from y0.dsl import Sum

        if "sum" in kinds(spec) and c.to_y0().count("Sum[") < text.count("Sum["):
            labels.add("sum-collapsed")
    # second relation: declared-equal implies semantically equal
    rng = SplitMix(case["edit"])
    variants = [("perm", exprgen.permute_presentation(spec, rng)), ("edit", one_token_edit(spec, rng))]
    for vname, vs in variants:
        b = exprgen.build_raw(vs)
        try:
            eq = canonical_expr_equal(e, b)
        except Exception as ex:
            return fail("canonical_expr_equal-raised", other=b.to_y0(), exc=repr(ex)[:300])
        if eq and worlds and ambiguous_twin_binding(b):
            continue
        if eq:
            labels.add("declared-equal")
            d = first_difference(ev, e, b, names, card, skip_undefined=worlds)
            if d:
                return fail("declared-canonically-equal-but-semantically-different", other=b.to_y0(), variant=vname, **d)
        else:
            labels.add("declared-unequal")
    out.nontrivial = c != e and size(spec) >= 3
    out.sample = {"expression": text, "canonical": c.to_y0(), "order": case["order"]}
    out.labels = sorted(labels)
    return out


LEVEL_TEXT = (
    "Generated-input search with a denotational oracle: tens of thousands of raw expression trees are canonicalised and both "
    "forms are evaluated exactly on arbitrary positive distributions at every environment; declared canonical equality of "
    "related pairs is checked against semantic equality. Exploration is the right level for an algebraic law over an unbounded grammar."
)
LEVEL_NOTE = "Trusts the evaluator (vf/sem.py); expressions bounded to depth 4 over 4 names; distributions are random positive tables."
TECHNIQUE = "property-based testing (Hypothesis), metamorphic/denotational oracle with exact rational arithmetic"
