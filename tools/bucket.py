#!/venv/bin/python
"""Collect-then-bucket: run a property's generator for N cases WITHOUT stopping at failures and tabulate
failure kinds by a feature key (module function ``bucket_features(case)`` or the outcome's labels).

usage: tools/bucket.py C07 [n_cases] [seed] [--regions-off]
"""
import collections, importlib, os, sys, json
HERE = os.path.dirname(os.path.dirname(os.path.abspath(__file__)))
sys.path.insert(0, os.path.join(os.environ.get("Y0_REPO", "/repo"), "src")); sys.path.insert(0, HERE)
import warnings; warnings.simplefilter("ignore")
import logging; logging.disable(logging.CRITICAL)
from hypothesis import given, settings, seed, HealthCheck, Phase
def main():
    prop = sys.argv[1]; n = int(sys.argv[2]) if len(sys.argv) > 2 else 500; sd = int(sys.argv[3]) if len(sys.argv) > 3 else 0
    off = "--regions-off" in sys.argv
    mod = importlib.import_module(f"vf.props.{prop.lower()}")
    from vf.common import guarded
    table = collections.defaultdict(collections.Counter); examples = collections.defaultdict(list)
    @seed(sd)
    @settings(max_examples=n, database=None, deadline=None, suppress_health_check=list(HealthCheck), phases=[Phase.generate])
    @given(mod.strategy("quick"))
    def t(case):
        out = guarded((lambda c: mod.check(c, ignore_regions=True)) if off else mod.check, case)
        feats = tuple(sorted(mod.bucket_features(case))) if hasattr(mod, "bucket_features") else tuple(out.labels)
        res = "excluded:" + out.excluded if out.excluded else ("ok" if out.ok else "FAIL:" + str(out.detail.get("kind")))
        table[feats][res] += 1
        if not out.ok and len(examples[(feats, res)]) < 2:
            examples[(feats, res)].append(json.dumps(out.detail, default=str)[:700])
    t()
    for feats, c in sorted(table.items(), key=lambda kv: -sum(kv[1].values())):
        print(dict(c), " <- ", list(feats))
    print()
    for (feats, res), exs in sorted(examples.items(), key=lambda kv: str(kv[0])):
        print("==", res, list(feats))
        for e in exs: print("    ", e)
main()
