#!/venv/bin/python
"""Regenerate MANIFEST.json from the property modules' metadata."""
import importlib, json, os, sys
HERE = os.path.dirname(os.path.dirname(os.path.abspath(__file__)))
sys.path.insert(0, HERE); sys.path.insert(0, "/repo/src")
REGISTERED = [l.strip() for l in open(os.path.join(HERE, "tools", "registered.txt")) if l.strip() and not l.startswith("#")]
NOT_APPLICABLE = json.load(open(os.path.join(HERE, "tools", "not_applicable.json")))
props = {json.loads(l)["id"] for l in open(os.path.join(HERE, "properties.jsonl"))}
checks = []
for pid in REGISTERED:
    m = importlib.import_module(f"vf.props.{pid.lower()}")
    checks.append({
        "property_id": pid,
        "quick_cmd": f"./run.py {pid} --tier quick",
        "thorough_cmd": f"./run.py {pid} --tier thorough",
        "evidence_file": f"/verif/evidence/{pid}.json",
        "replay_cmd_template": f"./run.py {pid} --replay {{path}}",
        "engine": "hypothesis-pbt",
        "level_claimed": {"category": "exploration", "text": m.LEVEL_TEXT, "design_ref": f"DESIGN.md section 6 ({pid})"},
        "level_note": m.LEVEL_NOTE,
        "technique": m.TECHNIQUE,
    })
na = [e for e in NOT_APPLICABLE if e["property_id"] not in REGISTERED]
for pid in sorted(props - set(REGISTERED) - {e["property_id"] for e in na}):
    na.append({"property_id": pid, "reason": "check not yet built in this round (the technique applies; see DESIGN.md section 6)"})
manifest = {
    "version": 1,
    "setup_cmd": "/venv/bin/python -c 'import hypothesis' 2>/dev/null || /venv/bin/pip install --no-index --find-links /opt/veriftools/wheels hypothesis",
    "hooks": {
        "guard": "Y0_VERIF",
        "enable": "no source hooks are used: the harness wraps module-level functions of y0 at import time from its own process (run.py sets Y0_VERIF=1 only for symmetry); checks import y0 from /repo/src of the current working tree",
        "baseline_off_cmd": "cd /repo && /venv/bin/python -m pytest -ra -q -p no:cacheprovider --timeout=900 --continue-on-collection-errors",
        "source_commits": [],
        "add_only": True,
    },
    "engines": [{"name": "hypothesis-pbt", "path": "/verif/run.py", "serves_properties": REGISTERED,
                 "kind_free_text": "Hypothesis 6.168 generators sharded over 16 processes + exhaustive enumeration of small slices; exact-rational SCM oracles; shrunk failures become JSON replay files"}],
    "checks": checks,
    "not_applicable": na,
    "notes": "All checks: exit 0 = held on everything explored (KNOWN-FINDING lines for open entries of known_findings.json), exit 1 = VIOLATION line, exit 2 = harness error. VERIF_SEED selects the run; PYTHONHASHSEED is pinned to 0 by run.py.",
}
json.dump(manifest, open(os.path.join(HERE, "MANIFEST.json"), "w"), indent=1)
print("registered:", REGISTERED)
