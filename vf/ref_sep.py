"""m-separation oracle: d-separation in the DAG obtained by giving every bidirected edge its own latent parent.

Two independent implementations (Bayes-ball reachability written here; networkx.is_d_separator) are
cross-checked; a disagreement is a harness error, never a violation.
"""

from __future__ import annotations

import networkx as nx

from .common import HarnessError


def lv_dag(nodes, di, bi) -> nx.DiGraph:
    d = nx.DiGraph()
    d.add_nodes_from(nodes)
    d.add_edges_from((u, v) for u, v in di)
    for k, (a, b) in enumerate(bi):
        u = ("__L", k)
        d.add_edge(u, a)
        d.add_edge(u, b)
    return d


def dsep_bayesball(d: nx.DiGraph, a, b, cond) -> bool:
    cond = set(cond)
    anc = set(cond)
    for c in cond:
        anc |= nx.ancestors(d, c)
    visited = set()
    stack = [(a, "up")]
    while stack:
        n, dirn = stack.pop()
        if (n, dirn) in visited:
            continue
        visited.add((n, dirn))
        if n == b and n not in cond:
            return False
        if dirn == "up" and n not in cond:
            for p in d.predecessors(n):
                stack.append((p, "up"))
            for c in d.successors(n):
                stack.append((c, "down"))
        elif dirn == "down":
            if n not in cond:
                for c in d.successors(n):
                    stack.append((c, "down"))
            if n in anc:
                for p in d.predecessors(n):
                    stack.append((p, "up"))
    return True


class SepOracle:
    """Oracle for one graph given as plain names / edge lists."""

    def __init__(self, nodes, di, bi, cross_check=True):
        self.d = lv_dag(nodes, di, bi)
        self.cross = cross_check
        self._cache = {}

    def separated(self, a, b, cond) -> bool:
        key = (a, b, frozenset(cond))
        if key not in self._cache:
            r1 = dsep_bayesball(self.d, a, b, cond)
            if self.cross:
                r2 = nx.is_d_separator(self.d, {a}, {b}, set(cond))
                if r1 != r2:
                    raise HarnessError(f"separation oracles disagree on {a},{b}|{sorted(cond)}: {r1} vs {r2}")
            self._cache[key] = r1
        return self._cache[key]

    def separated_sets(self, xs, ys, cond) -> bool:
        return all(self.separated(x, y, cond) for x in xs for y in ys)


def acyclification(nodes, di, bi):
    """Forre-Mooij acyclification of a directed mixed graph: sigma-separation in G is d-separation in the result.

    j -> i iff j is outside sc(i) and j -> k for some k in sc(i); i <-> j iff some i' in sc(i), j' in sc(j) with
    i' == j' or i' <-> j'.  Used only for an informational label on cyclic graphs.
    """
    d = nx.DiGraph()
    d.add_nodes_from(nodes)
    d.add_edges_from((u, v) for u, v in di)
    sc = {}
    for comp in nx.strongly_connected_components(d):
        for n in comp:
            sc[n] = frozenset(comp)
    ndi = sorted({(j, i) for (j, k) in d.edges() for i in sc[k] if j not in sc[k]})
    bis = {frozenset(e) for e in bi}
    nbi = set()
    nl = list(nodes)
    for x in range(len(nl)):
        for y in range(x + 1, len(nl)):
            i, j = nl[x], nl[y]
            if sc[i] & sc[j] or any(frozenset((a, b)) in bis for a in sc[i] for b in sc[j]):
                nbi.add((i, j))
    return list(nodes), [list(e) for e in ndi], [list(e) for e in sorted(nbi)]
