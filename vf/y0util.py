"""Bridges between JSON-able cases and y0 objects."""

from __future__ import annotations

from y0.dsl import Variable
from y0.graph import NxMixedGraph


def V(name: str) -> Variable:
    return Variable(name)


def build_graph(g: dict, how: str = "auto") -> NxMixedGraph:
    """Build the y0 graph of a case.  ``how``: "from_edges" (one go), "incremental" (grown with add_* calls and
    read-only queries in between, see build_graph_incremental) or "auto": a deterministic third of all graphs (chosen by
    a hash of the graph's content) is built incrementally, so every property also sees graph objects with a history."""
    carried = _carry_lookup(g)
    if carried is not None:
        return carried
    if how == "auto":
        import zlib

        how = "incremental" if zlib.crc32(graph_key(g).encode()) % 3 == 0 and all(u != v for u, v in g["di"]) else "ctor-rotation"
    if how == "incremental":
        return _carry_store(g, build_graph_incremental(g))
    if how == "ctor-rotation":
        # the public constructors by turns (a graph is the same graph however it was written down)
        import zlib

        how = ["from_edges", "from_edges_partial_nodes", "from_str_edges", "from_adj", "from_str_adj", "copy", "subgraph", "from_edges", "dataclass"][zlib.crc32(("ctor" + graph_key(g)).encode()) % 9]
    nodes, di, bi = list(g["nodes"]), [tuple(e) for e in g["di"]], [tuple(e) for e in g["bi"]]

    def adj(pairs, wrap):
        out = {}
        for u, v in pairs:
            out.setdefault(wrap(u), []).append(wrap(v))
        return out

    if how == "from_str_edges":
        obj = NxMixedGraph.from_str_edges(nodes=nodes, directed=di, undirected=bi)
    elif how == "from_adj":
        obj = NxMixedGraph.from_adj(nodes=[V(n) for n in nodes], directed=adj(di, V), undirected=adj(bi, V))
    elif how == "from_str_adj":
        obj = NxMixedGraph.from_str_adj(nodes=nodes, directed=adj(di, str), undirected=adj(bi, str))
    elif how == "dataclass":
        # the class's own constructor with two networkx graphs the caller filled himself; both hold every node, not
        # necessarily in the same order
        import networkx as nx

        d_, u_ = nx.DiGraph(), nx.Graph()
        u_.add_edges_from((V(u), V(v)) for u, v in bi)
        d_.add_nodes_from(V(n) for n in nodes)
        d_.add_edges_from((V(u), V(v)) for u, v in di)
        u_.add_nodes_from(d_)
        obj = NxMixedGraph(directed=d_, undirected=u_)
    elif how == "from_edges_partial_nodes":
        # nodes= only has to name the nodes no edge mentions (the documented way to keep an edgeless node); some of the
        # others are listed as well, in a hash-chosen pattern
        import zlib

        touched = {x for e in di + bi for x in e}
        hk = zlib.crc32(("partial" + graph_key(g)).encode())
        listed = [n for i, n in enumerate(nodes) if n not in touched or (hk >> (i % 16)) & 1]
        obj = NxMixedGraph.from_edges(nodes=[V(n) for n in listed] or None, directed=[(V(u), V(v)) for u, v in di], undirected=[(V(u), V(v)) for u, v in bi])
    else:
        obj = NxMixedGraph.from_edges(
            nodes=[V(n) for n in nodes],
            directed=[(V(u), V(v)) for u, v in di],
            undirected=[(V(u), V(v)) for u, v in bi],
        )
        if how == "copy":
            obj = obj.copy()
        elif how == "subgraph":
            obj = obj.subgraph([V(n) for n in nodes])
    return _carry_store(g, obj)


# ---------------------------------------------------------------------------
# "query, edit, query again" histories (see common.run_check): the property's own check is first run on the case's
# graph with some edges missing; the y0 graph object built for that run is kept, the missing edges are added to it
# through the public add_* API, and the real check then receives THAT object from build_graph.

_CARRY = {"stage": 0, "g0": None, "g": None, "obj": None, "used": False}


def history_plan(case):
    """None, or (g0, g): g0 = the case's graph with a deterministic, non-empty subset of its edges removed.  Chosen for a
    quarter of the cases by a hash of the case, so a case always behaves the same way (replays included)."""
    import json
    import zlib

    g = case.get("g") if isinstance(case, dict) else None
    if not isinstance(g, dict) or not {"nodes", "di", "bi"} <= set(g) or not (g["di"] or g["bi"]):
        return None
    if any(u == v for u, v in g["di"]):
        return None
    h = zlib.crc32(json.dumps(case, sort_keys=True, default=str).encode())
    if h % 4:
        return None
    from .common import SplitMix

    rng = SplitMix(h)
    if (h >> 2) % 3 == 0 and g["di"]:
        # 'rewire' history: the first question is asked about the graph with ONE directed edge pointing the other way
        # (same nodes, same edge counts); the object is then edited in place through its public networkx graphs
        import networkx as nx

        for k in range(len(g["di"])):
            i = (rng.below(len(g["di"])) + k) % len(g["di"])
            u, v = g["di"][i]
            if [v, u] in g["di"]:
                continue
            di0 = [e for j, e in enumerate(g["di"]) if j != i] + [[v, u]]
            if nx.is_directed_acyclic_graph(nx.DiGraph(list(map(tuple, di0)))) or not nx.is_directed_acyclic_graph(nx.DiGraph(list(map(tuple, g["di"])))):
                g0 = dict(g)
                g0["di"] = di0
                return g0, g
    edges = [("d", i) for i in range(len(g["di"]))] + [("b", i) for i in range(len(g["bi"]))]
    drop = {e for e in edges if rng.below(3) == 0} or {edges[rng.below(len(edges))]}
    g0 = dict(g)
    g0["di"] = [e for i, e in enumerate(g["di"]) if ("d", i) not in drop]
    g0["bi"] = [e for i, e in enumerate(g["bi"]) if ("b", i) not in drop]
    return g0, g


def carry_begin(g0, g):
    _CARRY.update(stage=1, g0=graph_key(g0), g=graph_key(g), full=g, part=g0, obj=None, used=False)


def carry_second_stage():
    _CARRY["stage"] = 2


def carry_end():
    _CARRY.update(stage=0, g0=None, g=None, full=None, part=None, obj=None, used=False)


def _carry_store(g, obj):
    if _CARRY["stage"] == 1 and _CARRY["obj"] is None and graph_key(g) == _CARRY["g0"]:
        _CARRY["obj"] = obj
    return obj


def _carry_lookup(g):
    if _CARRY["stage"] != 2 or _CARRY["used"] or _CARRY["obj"] is None or graph_key(g) != _CARRY["g"]:
        return None
    _CARRY["used"] = True
    obj, part, full = _CARRY["obj"], _CARRY["part"], _CARRY["full"]
    have_d = {tuple(e) for e in part["di"]}
    have_b = {frozenset(e) for e in part["bi"]}
    want_d = {tuple(e) for e in full["di"]}
    if have_d - want_d:
        # rewire: the object's public networkx graphs are edited directly
        for u, v in sorted(have_d - want_d):
            obj.directed.remove_edge(V(u), V(v))
        for u, v in sorted(want_d - have_d):
            obj.directed.add_edge(V(u), V(v))
        return obj
    for u, v in full["di"]:
        if (u, v) not in have_d:
            obj.add_directed_edge(V(u), V(v))
    for u, v in full["bi"]:
        if frozenset((u, v)) not in have_b:
            obj.add_undirected_edge(V(u), V(v))
    return obj


def reinsert(g: dict) -> dict:
    """The same graph presented in a different insertion order (and flipped bidirected endpoints)."""
    return {
        "nodes": list(reversed(g["nodes"])),
        "di": [list(e) for e in reversed(g["di"])],
        "bi": [[v, u] for u, v in reversed(g["bi"])],
    }


def graph_key(g: dict) -> str:
    return "N:%s|D:%s|B:%s" % (
        ",".join(sorted(g["nodes"])),
        ";".join(sorted(f"{u}>{v}" for u, v in g["di"])),
        ";".join(sorted("~".join(sorted(e)) for e in g["bi"])),
    )


def graph_sample(g: dict) -> dict:
    return {"nodes": g["nodes"], "directed": [f"{u}->{v}" for u, v in g["di"]], "bidirected": [f"{u}<->{v}" for u, v in g["bi"]]}


def snapshot(graph: NxMixedGraph):
    return (
        list(graph.nodes()),
        list(graph.directed.edges()),
        list(graph.undirected.edges()),
    )


class StepBudgetExceeded(Exception):
    """Deterministic non-termination guard: a recursive entry point was called absurdly often."""


class CallTrace:
    """Count calls of module-level functions (monkeypatched for the duration of a ``with`` block).

    Used only for labels; a name that no longer exists is recorded as 'unknown:<name>' and ignored.
    """

    def __init__(self, module, names, budget=None):
        self.module = module
        self.names = list(names)
        self.budget = budget or {}
        self.calls = {}
        self._saved = {}
        self.observers = {}

    def observe(self, name, fn):
        """fn(args, kwargs, result) is called after each call of ``name``."""
        self.observers[name] = fn
        return self

    def __enter__(self):
        for n in self.names:
            orig = getattr(self.module, n, None)
            if orig is None:
                self.calls["unknown:" + n] = 1
                continue
            self._saved[n] = orig

            def wrapper(*a, __orig=orig, __n=n, **k):
                self.calls[__n] = self.calls.get(__n, 0) + 1
                if __n in self.budget and self.calls[__n] > self.budget[__n]:
                    raise StepBudgetExceeded(f"{__n} called more than {self.budget[__n]} times")
                r = __orig(*a, **k)
                ob = self.observers.get(__n)
                if ob is not None:
                    ob(a, k, r)
                return r

            setattr(self.module, n, wrapper)
        return self

    def __exit__(self, *exc):
        for n, orig in self._saved.items():
            setattr(self.module, n, orig)
        return False


class ReentryGuard:
    """Deterministic non-termination detector for a recursive module-level function whose control flow depends only
    on a state key of its argument: if the same key is entered twice on one call stack, the recursion cannot end.
    Raises StepBudgetExceeded at the re-entry (no wall clock involved).  Also counts calls and maximum depth."""

    def __init__(self, module, name, keyfn, max_calls=200000):
        self.module, self.name, self.keyfn, self.max_calls = module, name, keyfn, max_calls
        self.stack = []
        self.calls = 0
        self.max_depth = 0
        self._orig = None

    def __enter__(self):
        self._orig = getattr(self.module, self.name, None)
        if self._orig is None:
            return self
        orig = self._orig

        def wrapper(*a, **k):
            self.calls += 1
            if self.calls > self.max_calls:
                raise StepBudgetExceeded(f"{self.name} called more than {self.max_calls} times")
            try:
                key = self.keyfn(*a, **k)
            except Exception:
                key = None
            if key is not None and key in self.stack:
                raise StepBudgetExceeded(f"{self.name} re-entered with an identical sub-problem {key!r}: infinite recursion")
            self.stack.append(key)
            self.max_depth = max(self.max_depth, len(self.stack))
            try:
                return orig(*a, **k)
            finally:
                self.stack.pop()

        setattr(self.module, self.name, wrapper)
        return self

    def __exit__(self, *exc):
        if self._orig is not None:
            setattr(self.module, self.name, self._orig)
        return False


def identification_key(identification):
    g = identification.graph
    return (
        tuple(sorted(n.name for n in g.nodes())),
        tuple(sorted((u.name, v.name) for u, v in g.directed.edges())),
        tuple(sorted(tuple(sorted((u.name, v.name))) for u, v in g.undirected.edges())),
        tuple(sorted(v.name for v in identification.treatments)),
        tuple(sorted(v.name for v in identification.outcomes)),
        tuple(sorted(v.name for v in identification.conditions)),
    )


def build_graph_incremental(g: dict, probe: bool = True, strict_probes: bool = False):
    """The same graph built the way a user grows one: an empty NxMixedGraph, then add_node / add_directed_edge /
    add_undirected_edge one at a time (edges first, so that nodes also appear implicitly), with read-only queries
    (districts, is_connected, ancestors, topological order, skeleton, moral graph, latent-variable DAG) issued between
    the mutations.  Any caching inside the graph object therefore sees every intermediate state.  Must be indistinguishable from build_graph(g)."""
    from y0.graph import NxMixedGraph

    graph = NxMixedGraph()

    counter = [0]

    def look():
        """Read-only queries on a changing SUBSET of the nodes (decided by the step number), so that anything the graph
        object memoises is neither always fresh nor always refreshed before it is used."""
        if not probe:
            return
        counter[0] += 1
        k = counter[0]
        try:
            if k % 2:
                graph.districts()
            if len(graph.nodes()) > 0:
                if k % 3 == 0:
                    graph.is_connected()
                if k % 3 == 1:
                    graph.disorient()
                if k % 4 == 1:
                    graph.moralize()
                if k % 5 == 2:
                    graph.to_latent_variable_dag()
                for j, node in enumerate(list(graph.nodes())):
                    if (j + k) % 3 == 0:
                        graph.ancestors_inclusive(node)
                        graph.get_district(node)
                    if (j + k) % 4 == 0:
                        graph.descendants_inclusive(node)
                        graph.get_markov_pillow([node])
        except Exception:
            # a failing probe is judged only by the property that owns these queries (C14: strict_probes)
            if strict_probes:
                raise
        try:
            if k % 2 == 0:
                list(graph.topological_sort())
        except Exception:
            pass

    look()
    steps = [("b", e) for e in g["bi"]] + [("d", e) for e in g["di"]]
    # interleave: bidirected and directed edges alternately, then the remaining nodes
    steps = steps[::2] + steps[1::2]
    missing_later = [n for n in g["nodes"] if n not in {x for _k, e in steps for x in e}]
    for idx, (kind, (u, v)) in enumerate(steps):
        if kind == "d":
            graph.add_directed_edge(V(u), V(v))
        else:
            graph.add_undirected_edge(V(u), V(v))
        if idx < len(steps) - 1 or missing_later:  # never right after the last mutation
            look()
    for idx, n in enumerate(missing_later):
        graph.add_node(V(n))
        if idx < len(missing_later) - 1:
            look()
    return graph


def as_iterable(items, k: int):
    """The same collection of values presented the way different callers pass an ``Iterable`` argument: list, tuple,
    set, frozenset, dict keys, a one-shot iterator or a generator (chosen by ``k``); empty collections also as None."""
    items = list(items)
    k = k % 8
    if k == 0:
        return items
    if k == 1:
        return tuple(items)
    if k == 2:
        return set(items)
    if k == 3:
        return frozenset(items)
    if k == 4:
        return dict.fromkeys(items).keys()
    if k == 5:
        return iter(items)
    if k == 6:
        return (x for x in items)
    return items if items else None


def one_or_many(values, k: int, many=set):
    """Arguments typed ``Variable | set[Variable]`` (or ``| list``): a singleton is passed bare every other time."""
    values = list(values)
    if len(values) == 1 and k % 2:
        return values[0]
    return many(values)


class user_recursion_limit:
    """Run a block with the interpreter's default recursion headroom (1000 frames) counted from HERE.

    The workers raise the recursion limit for the harness's own oracles; a library call judged for totality must see
    what a user calling it from a short script would see -- no more (a deep recursion inside the library would go
    unnoticed) and no less (the frames of Hypothesis and the harness below this point are not the library's fault)."""

    def __init__(self, limit=1000):
        self.limit = limit

    def __enter__(self):
        import sys

        depth, f = 0, sys._getframe()
        while f is not None:
            depth += 1
            f = f.f_back
        self.old = sys.getrecursionlimit()
        sys.setrecursionlimit(self.limit + depth)
        return self

    def __exit__(self, *exc):
        import sys

        sys.setrecursionlimit(self.old)
        return False


def enlarge(g, shape, n, anchor):
    """A copy of graph dict ``g`` with ``n`` extra nodes attached at node ``anchor``; the extra nodes carry no
    bidirected edge, so districts, hedges and the identifiability of every query over the old nodes are unchanged.

    shapes: 'chain-above' (L1 -> ... -> Ln -> anchor), 'chain-below' (anchor -> L1 -> ... -> Ln), 'parents' (n parents of
    anchor), 'children' (n children of anchor), 'isolated' (n nodes without edges)."""
    new = [f"L{i}" for i in range(1, n + 1)]
    di = [list(e) for e in g["di"]]
    if shape == "chain-above":
        di += [[new[i], new[i + 1]] for i in range(n - 1)] + [[new[-1], anchor]]
    elif shape == "chain-below":
        di += [[anchor, new[0]]] + [[new[i], new[i + 1]] for i in range(n - 1)]
    elif shape == "parents":
        di += [[x, anchor] for x in new]
    elif shape == "children":
        di += [[anchor, x] for x in new]
    return {"nodes": list(g["nodes"]) + new, "di": di, "bi": [list(e) for e in g["bi"]]}
