"""Set-theoretic model of a mixed graph and of every surgery operation (written from the definitions).

A node label is (name, frozenset of (intervention name, star)); the model never calls y0.
"""

from __future__ import annotations

import itertools as itt


def lab(v):
    ints = getattr(v, "interventions", None)
    if ints:
        return (v.name, frozenset((i.name, bool(i.star)) for i in ints))
    return (v.name, frozenset())


class MG:
    def __init__(self, nodes, di, bi):
        self.nodes = frozenset(nodes)
        self.di = frozenset((u, v) for u, v in di)
        self.bi = frozenset(frozenset(e) for e in bi)

    @classmethod
    def of(cls, graph):
        return cls(
            [lab(n) for n in graph.nodes()],
            [(lab(u), lab(v)) for u, v in graph.directed.edges()],
            [(lab(u), lab(v)) for u, v in graph.undirected.edges()],
        )

    def same(self, other) -> bool:
        return self.nodes == other.nodes and self.di == other.di and self.bi == other.bi

    def describe(self):
        return {
            "nodes": sorted(map(_s, self.nodes)),
            "di": sorted(f"{_s(u)}->{_s(v)}" for u, v in self.di),
            "bi": sorted("<->".join(sorted(map(_s, e))) for e in self.bi),
        }

    # structural helpers
    def pa(self, s):
        return {u for u, v in self.di if v in s}

    def ch(self, s):
        return {v for u, v in self.di if u in s}

    def sib(self, s):
        out = set()
        for e in self.bi:
            if e & set(s):
                out |= e
        return out - set(s)

    # operations
    def subgraph(self, s):
        s = set(s)
        return MG(s, [(u, v) for u, v in self.di if u in s and v in s], [e for e in self.bi if e <= s])

    def remove_in_edges(self, s):
        s = set(s)
        return MG(self.nodes, [(u, v) for u, v in self.di if v not in s], [e for e in self.bi if not (e & s)])

    def remove_out_edges(self, s):
        s = set(s)
        return MG(self.nodes, [(u, v) for u, v in self.di if u not in s], self.bi)

    def remove_nodes_from(self, s):
        s = set(s)
        return MG(
            self.nodes - s,
            [(u, v) for u, v in self.di if u not in s and v not in s],
            [e for e in self.bi if not (e & s)],
        )

    def intervene(self, ints):
        """ints: set of (name, star). Every node gets the subscripts; edges into intervened nodes vanish."""
        names = {n for n, _ in ints}
        f = frozenset(ints)

        def up(n):
            return (n[0], n[1] | f)

        return MG(
            [up(n) for n in self.nodes],
            [(up(u), up(v)) for u, v in self.di if v[0] not in names],
            [[up(x) for x in e] for e in self.bi if not any(x[0] in names for x in e)],
        )

    def ancestors_inclusive(self, s):
        out = set(s)
        frontier = set(s)
        while frontier:
            frontier = self.pa(frontier) - out
            out |= frontier
        return out

    def descendants_inclusive(self, s):
        out = set(s)
        frontier = set(s)
        while frontier:
            frontier = self.ch(frontier) - out
            out |= frontier
        return out

    def districts(self):
        left = set(self.nodes)
        out = set()
        while left:
            n = min(left, key=_s)
            comp = {n}
            frontier = {n}
            while frontier:
                frontier = self.sib(comp) - comp
                comp |= frontier
            out.add(frozenset(comp))
            left -= comp
        return out

    def markov_pillow(self, s):
        return self.pa(s) - set(s)

    def markov_blanket(self, s):
        s = set(s)
        c = self.ch(s)
        return (self.pa(s) | c | self.pa(c)) - s

    def moralize(self):
        """Augmented graph: marry every pair joined by a path all of whose inner nodes are colliders."""
        extra = set()
        for u in self.nodes:
            closure = self.ch({u}) | self.sib({u})
            while True:
                more = {x for e in self.bi if e & closure for x in e} - closure
                if not more:
                    break
                closure |= more
            partners = (self.pa(closure) | {x for e in self.bi if e & closure and len(e) == 2 for x in e if (e - {x}) <= closure}) - {u}
            for v in partners:
                extra.add(frozenset((u, v)))
        return MG(self.nodes, self.di, set(self.bi) | extra)

    def disorient_edges(self):
        return {frozenset(e) for e in self.di} | set(self.bi)

    def is_acyclic(self):
        indeg = {n: 0 for n in self.nodes}
        for u, v in self.di:
            indeg[v] += 1
        ready = [n for n, d in indeg.items() if d == 0]
        seen = 0
        while ready:
            n = ready.pop()
            seen += 1
            for u, v in self.di:
                if u == n:
                    indeg[v] -= 1
                    if indeg[v] == 0:
                        ready.append(v)
        return seen == len(self.nodes)

    def valid_topological_order(self, order):
        order = list(order)
        if len(order) != len(set(order)) or set(order) != set(self.nodes):
            return False
        pos = {n: i for i, n in enumerate(order)}
        return all(pos[u] < pos[v] for u, v in self.di)

    def valid_pre(self, result, s, order=None):
        """Validity of pre(): prefix of a topological order that stops at the first member of s."""
        s = set(s)
        result = list(result)
        if order is not None:
            cut = next((i for i, n in enumerate(order) if n in s), len(order))
            return result == list(order[:cut])
        rs = set(result)
        if len(rs) != len(result) or rs & s or not rs <= self.nodes:
            return False
        if self.pa(rs) - rs:  # not downward closed
            return False
        pos = {n: i for i, n in enumerate(result)}
        if any(u in pos and v in pos and pos[u] > pos[v] for u, v in self.di):
            return False
        if not (s & self.nodes):
            return rs == set(self.nodes)
        # the order continued with a member of s: some member of s has all its parents inside the prefix
        return any(self.pa({x}) <= rs for x in s & self.nodes)

    def nodes_in_directed_paths(self, sources, targets):
        out = set()
        succ = {}
        for u, v in self.di:
            succ.setdefault(u, []).append(v)

        def dfs(path, target):
            n = path[-1]
            if n == target:
                out.update(path)
                return
            for m in succ.get(n, []):
                if m not in path:
                    dfs(path + [m], target)

        for s, t in itt.product(sources, targets):
            if s != t:
                dfs([s], t)
        return out


def _s(n):
    name, ints = n
    if not ints:
        return name
    return name + "@" + ",".join(("+" if st else "-") + i for i, st in sorted(ints))
