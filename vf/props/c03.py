"""C03 — IDC estimands equal the true conditional interventional distribution."""

from __future__ import annotations

from hypothesis import strategies as st

from .. import gen
from ..common import Outcome
from ..model import SCM
from ..ref_id import G as RG
from ..ref_id import identifiable
from ..ref_sep import SepOracle
from ..y0util import CallTrace, V, build_graph, graph_key, graph_sample, one_or_many
from .c01 import compare_estimand

ID = "C03"
RULE = (
    "Generate an ADMG (2..6 nodes, random or motif-planted), pairwise disjoint X (possibly empty), Y, Z (both non-empty) "
    "and two positive discrete SCMs. Call identify_outcomes(graph, X, Y, conditions=Z) and idc(Identification). A "
    "returned estimand is evaluated on the model's observational joint at EVERY full assignment and must equal "
    "P(Y,Z|do X)/P(Z|do X) from truncated factorisation (exact Fractions). Anything other than an expression or the "
    "'unidentifiable' refusal is a violation. The verdict is also compared with a reference IDC (rule-2 exchanges decided "
    "by the m-separation oracle, then the reference identifiability criterion) -- recorded as a label only, since the "
    "property does not claim completeness. Non-trivial = estimand returned and at least one rule-2 test was evaluated on "
    "a graph with a bidirected edge; distinct = distinct (graph, X, Y, Z)."
)
ASSUMPTIONS = [
    "graphs bounded to 6 nodes, cardinalities to 3, two models per query",
    "evaluator and truncated-factorisation truth as in C01",
]
BUDGET = {
    "quick": dict(examples=250, shards=16, seconds=200),
    "thorough": dict(examples=1500, shards=16, seconds=2400),
}
ESSENTIAL_LABELS = {t: ["answered", "exchange", "no-exchange", "empty-X", "rule2-with-bidirected"] for t in ("quick", "thorough")}


@st.composite
def _case(draw, gs):
    g = draw(gs)
    need_x = draw(st.integers(0, 3)) > 0 and len(g["nodes"]) >= 3
    req = ["Y", "Z"] + (["X"] if need_x else [])
    labs = ["X", "Y", "Z"] if need_x or draw(st.booleans()) else ["Y", "Z"]
    part = draw(gen.labelled_partition(g["nodes"], labs, required=req))
    return {
        "g": g,
        "X": part.get("X", []),
        "Y": part["Y"],
        "Z": part["Z"],
        "mseed": draw(st.integers(0, 2**32)),
        "max_card": draw(st.sampled_from([2, 2, 3])),
        "clique": draw(st.booleans()),
    }


def strategy(tier):
    return st.one_of(
        _case(gen.with_odd_names(gen.admgs(2, 6), 6)),
        _case(gen.admgs(3, 6, bi_densities=(2, 3, 5), di_densities=(3, 5, 7))),
        _case(gen.embedded_admgs(2)),
    )


def ref_idc(g, xs, ys, zs):
    """Reference IDC verdict on sets."""
    xs, zs = set(xs), set(zs)
    changed = True
    while changed:
        changed = False
        for z in sorted(zs):
            di = [e for e in g["di"] if e[1] not in xs and e[0] != z]
            bi = [e for e in g["bi"] if not (set(e) & xs)]
            o = SepOracle(g["nodes"], di, bi, cross_check=False)
            if all(o.separated(y, z, (xs | zs) - {z}) for y in ys):
                xs.add(z)
                zs.discard(z)
                changed = True
                break
    return identifiable(g["nodes"], g["di"], g["bi"], xs, set(ys) | zs) if xs else True


def check(case) -> Outcome:
    from y0.algorithm.identify import Identification, Query, Unidentifiable, id_c, identify_outcomes
    from y0.dsl import Expression

    g, xs, ys, zs = case["g"], case["X"], case["Y"], case["Z"]
    graph = build_graph(g)
    out = Outcome(key=f"{graph_key(g)}|X={','.join(xs)}|Y={','.join(ys)}|Z={','.join(zs)}")
    labels = {f"n={len(g['nodes'])}"}
    if not xs:
        labels.add("empty-X")

    def fail(kind, **kw):
        out.ok = False
        out.detail = {"kind": kind, "graph": g, "X": xs, "Y": ys, "Z": zs, **kw}
        out.labels = sorted(labels)
        return out

    rule2 = []
    with CallTrace(id_c, ["rule_2_of_do_calculus_applies"]) as tr:
        tr.observe("rule_2_of_do_calculus_applies", lambda a, k, r: rule2.append(bool(r)))
        try:
            k = len(g["nodes"]) + len(xs) + 2 * len(ys) + 4 * len(zs)
            est = identify_outcomes(graph, one_or_many([V(x) for x in xs], k), one_or_many([V(y) for y in ys], k // 2), conditions=one_or_many([V(z) for z in zs], k // 4))
        except Exception as e:
            return fail("identify_outcomes-raised", exc=repr(e)[:300])
    if est is not None and not isinstance(est, Expression):
        return fail("non-expression-returned", type=str(type(est)))
    # one Query / Identification object used for two calls, then the same Query wrapped around the graph again: the
    # answer is a function of the query, whatever an earlier call did with the objects it was given
    query = Query(outcomes={V(y) for y in ys}, treatments={V(x) for x in xs}, conditions={V(z) for z in zs})
    ident = Identification(query=query, graph=graph)
    answers = []
    for obj in (ident, ident, None):
        try:
            answers.append(id_c.idc(obj if obj is not None else Identification(query=query, graph=graph)))
        except Unidentifiable:
            answers.append(None)
        except Exception as e:
            return fail("idc-raised-other-than-Unidentifiable", exc=repr(e)[:300], call=len(answers) + 1)
    est2 = answers[0]
    if (est is None) != (est2 is None):
        return fail("idc-and-identify_outcomes-disagree")
    if any((a is None) != (est2 is None) or (a is not None and a != est2) for a in answers[1:]):
        return fail("answer-changes-when-the-query-object-is-used-again", answers=[None if a is None else a.to_y0() for a in answers])
    if rule2:
        labels.add("exchange" if any(rule2) else "no-exchange")
        if g["bi"]:
            labels.add("rule2-with-bidirected")
    ref = ref_idc(g, xs, ys, zs)
    if est is None:
        labels.add("unidentifiable")
        if ref:
            labels.add("refusal-where-reference-identifies(label only)")
        out.labels = sorted(labels)
        return out
    labels.add("answered")
    if not ref:
        labels.add("answer-where-reference-refuses(value still checked)")
    text = est.to_y0()
    out.sample = {**graph_sample(g), "X": xs, "Y": ys, "Z": zs, "estimand": text}
    for k, mseed in enumerate([case["mseed"], case["mseed"] + 7919]):
        scm = SCM(g, mseed, max_card=case["max_card"] if k == 0 else 2, clique_mode=case["clique"] if k == 0 else not case["clique"])
        bad = compare_estimand(est, g, xs, ys, scm, conds=zs)
        if bad:
            return fail(bad.pop("kind"), **bad, estimand=text, model=scm.params(), model_index=k)
    # objects DERIVED from the used Identification through its public methods (exchange_*, with_treatments) ask a
    # different question; their answers are judged like any other, whatever the parent object remembered
    import zlib

    h = zlib.crc32(out.key.encode())
    derived = []
    if xs:
        w = sorted(xs)[h % len(xs)]
        derived.append(("exchange_action_with_observation", w, [x for x in xs if x != w], zs + [w]))
    if len(zs) > 1:
        z = sorted(zs)[(h >> 3) % len(zs)]
        derived.append(("exchange_observation_with_action", z, xs + [z], [c for c in zs if c != z]))
    rest = sorted(set(g["nodes"]) - set(xs) - set(ys) - set(zs))
    if rest:
        n = rest[(h >> 6) % len(rest)]
        derived.append(("with_treatments", n, xs + [n], zs))
    for meth, var, xs2, zs2 in derived[(h >> 9) % 2 :: 2] if len(derived) > 1 else derived:
        try:
            arg = V(var) if meth != "with_treatments" else {V(var)}
            d_ident = getattr(ident, meth)(arg)
            est_d = id_c.idc(d_ident)
        except Unidentifiable:
            labels.add("derived-object:unidentifiable")
            continue
        except Exception as e:
            return fail("idc-on-derived-object-raised-other-than-Unidentifiable", method=meth, variable=var, exc=repr(e)[:300])
        labels.add("derived-object:" + meth)
        scm = SCM(g, case["mseed"], max_card=2, clique_mode=case["clique"])
        bad = compare_estimand(est_d, g, xs2, ys, scm, conds=zs2)
        if bad:
            return fail("derived-object:" + bad.pop("kind"), **bad, method=meth, variable=var, derived_query={"X": xs2, "Y": ys, "Z": zs2}, estimand=est_d.to_y0(), model=scm.params())
    out.nontrivial = bool(rule2) and bool(g["bi"])
    out.labels = sorted(labels)
    return out


LEVEL_TEXT = (
    "Generated-input search with a semantic oracle: IDC estimands are evaluated on exact-rational SCMs at every assignment "
    "and compared with P(Y,Z|do X)/P(Z|do X); totality of the two entry points is checked on every case. Exploration is "
    "the right level for a claim over all graphs, queries and models."
)
LEVEL_NOTE = "Trusts the evaluator and the truncated-factorisation truth; bounded sizes; two models per query; completeness of refusals is measured but not judged."
TECHNIQUE = "property-based testing (Hypothesis) with an exact-rational SCM oracle"
