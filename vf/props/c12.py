"""C12 — printing and parsing are inverse and printing is unambiguous."""

from __future__ import annotations

from hypothesis import strategies as st

from .. import exprgen
from ..common import Outcome, open_regions
from ..exprsem import first_difference, make_eval
from ..sem import FreeVariable, MultiWorld
from .c10 import kinds, size

ID = "C12"
NAMES = ["A", "B", "C1", "D_2"]
RULE = (
    "Generate an expression spec (depth <=4) over names of the parser's documented table (A, B, C1, D_2; populations "
    "π1, π2) with value marks, intervention subscripts (incl. + marks), PP[...] terms, Q-factors, sums, products, "
    "divisions, One, Zero, and build it with the PUBLIC operators only (P, P[...], PP[...], Q[...], *, /, Sum[...]). "
    "Meaning clause (all expressions): parse_y0(str(e)) succeeds and denotes the same function as e for arbitrary positive "
    "tables per (population, intervention values), arbitrary Q-factor functions and every environment (exact). "
    "Object clause (sub-family: every division has division-free non-constant operands and is not a factor of a product): "
    "parse_y0(str(e)) == e and str(parse_y0(str(e))) == str(e). Non-trivial = contains a division or a "
    "subscripted / value-marked variable; distinct = distinct spec."
)
ASSUMPTIONS = [
    "variable and population names restricted to the parser's documented name table",
    "each distribution mentions a name at most once",
    "semantics per vf/sem.py on arbitrary positive tables",
]
BUDGET = {
    "quick": dict(examples=1200, shards=16, seconds=200),
    "thorough": dict(examples=12000, shards=16, seconds=2400),
}
ESSENTIAL_LABELS = {t: ["object-clause", "has:frac", "has:Q", "has:pop", "has:do", "frac-with-product-denominator", "has:mixed-worlds"] for t in ("quick", "thorough")}

REGION_POP = "population_not_in_parser_table"


# the parser's documented name table: A-Z (without the builders P and Q), "Pi" and "π", each bare, with a digit, and with
# an underscore and a digit
_LETTERS = [c for c in "ABCDEFGHIJKLMNORSTUVWXYZ"] + ["Pi", "π"]
TABLE = [l + suffix for l in _LETTERS for suffix in [""] + [str(d) for d in range(10)] + ["_" + str(d) for d in range(10)]]
NAME_POOL = ["A", "B", "C1", "D_2", "Z9", "E", "X0", "Pi", "π", "Pi1", "Pi2", "Pi6", "Pi_3", "Pi9", "π2", "π_5", "O", "I1", "S", "N_0"]
POP_POOL = ["π1", "π2", "Pi1", "Pi2", "Pi5", "π", "π_1", "Pi_4", "A1", "T"]


@st.composite
def _case(draw):
    depth = draw(st.sampled_from([1, 2, 2, 3, 3, 4]))
    fam = draw(st.integers(0, 2))
    spec = draw(exprgen.expr_specs(depth=depth, names=NAMES, q=True, zero=fam == 0, one=fam != 2, mixed_worlds=True, reflexive_do=True))
    if draw(st.booleans()):
        # other names from the parser's table, including the ones that look alike (Pi1 / π1) -- populations too
        vs = draw(st.lists(st.sampled_from(NAME_POOL), min_size=len(NAMES), max_size=len(NAMES), unique=True))
        ps = draw(st.lists(st.sampled_from([p for p in POP_POOL if p not in vs]), min_size=2, max_size=2, unique=True))
        spec = exprgen.rename_spec(spec, dict(zip(NAMES, vs)), dict(zip(exprgen.POPS, ps)))
    return {"spec": spec, "mseed": draw(st.integers(0, 2**32))}


def strategy(tier):
    return _case()


def in_object_family(s, parent=None) -> bool:
    t = s["t"]
    if t == "frac":
        if parent == "prod":
            return False
        for part in (s["n"], s["d"]):
            k = kinds(part)
            if "frac" in k or part["t"] in ("one", "zero"):
                return False
        return in_object_family(s["n"], "frac") and in_object_family(s["d"], "frac")
    if t == "prod":
        return all(in_object_family(x, "prod") for x in s["xs"])
    if t == "sum":
        return in_object_family(s["x"], "sum")
    return True


def _pops(s, acc):
    if s["t"] == "P" and s["pop"]:
        acc.add(s["pop"])
    for x in s.get("xs", []):
        _pops(x, acc)
    for k in ("x", "n", "d"):
        if k in s:
            _pops(s[k], acc)
    return acc


def check(case, ignore_regions=False) -> Outcome:
    from y0.dsl import Fraction, Product
    from y0.parser import parse_y0

    spec = case["spec"]
    out = Outcome(key=str(spec))
    labels = {"has:" + k for k in kinds(spec)}
    pops = _pops(spec, set())
    if not ignore_regions and REGION_POP in open_regions(ID) and any(p not in TABLE for p in pops):
        out.excluded = REGION_POP
        return out
    try:
        e = exprgen.build_public(spec)
    except ZeroDivisionError:
        out.labels = ["construction-divides-by-zero(skipped)"]
        return out
    text = str(e)

    def fail(kind, **kw):
        out.ok = False
        out.detail = {"kind": kind, "text": text, "spec": spec, "mseed": case.get("mseed"), **kw}
        out.labels = sorted(labels)
        return out

    def walk(x):
        if isinstance(x, Fraction) and isinstance(x.denominator, Product):
            labels.add("frac-with-product-denominator")
        for y in getattr(x, "expressions", ()):
            walk(y)
        for k in ("expression", "numerator", "denominator"):
            if hasattr(x, k):
                walk(getattr(x, k))

    walk(e)
    try:
        p = parse_y0(text)
    except Exception as ex:
        return fail("parse-failed", exc=repr(ex)[:300])
    names = sorted(set(NAMES) | exprgen.spec_names(spec))
    ev, card = make_eval(names, case.get("mseed", 1), None)
    try:
        d = first_difference(ev, e, p, names, card)
    except (FreeVariable, MultiWorld, TypeError) as ex:
        return fail("parsed-expression-not-evaluable", exc=repr(ex)[:300], reparsed=str(p))
    if d:
        return fail("printed-form-means-something-else", reparsed=str(p), **d)
    if in_object_family(spec):
        labels.add("object-clause")
        if p != e:
            return fail("parsed-object-differs", reparsed=str(p), original_repr=_dump(e), parsed_repr=_dump(p))
        if str(p) != text:
            return fail("reprinted-text-differs", reparsed=str(p))
    out.nontrivial = bool({"has:frac", "has:do"} & labels) or any(m is not None for m in _marks(spec))
    out.sample = {"text": text, "object_clause": "object-clause" in labels}
    out.labels = sorted(labels)
    return out


def _marks(s):
    if s["t"] == "P":
        for n, m in s["ch"] + s["pa"]:
            yield m
    for x in s.get("xs", []):
        yield from _marks(x)
    for k in ("x", "n", "d"):
        if k in s:
            yield from _marks(s[k])


def _dump(e, depth=0):
    """Constructor-level rendering (str() hides nesting)."""
    import dataclasses

    if dataclasses.is_dataclass(e) and depth < 8:
        parts = []
        for f in dataclasses.fields(e):
            v = getattr(e, f.name)
            if isinstance(v, tuple | frozenset):
                parts.append(f"{f.name}=[{', '.join(_dump(x, depth + 1) for x in (sorted(v, key=str) if isinstance(v, frozenset) else v))}]")
            else:
                parts.append(f"{f.name}={_dump(v, depth + 1)}")
        return f"{type(e).__name__}({', '.join(parts)})"
    return repr(e)


LEVEL_TEXT = (
    "Generated-input search with a round-trip and a denotational oracle: tens of thousands of expressions built with the "
    "public operators are printed, re-parsed, compared semantically on arbitrary distributions (all expressions) and as "
    "objects and text (the un-nested-division sub-family). Exploration is the right level for a law over an unbounded grammar."
)
LEVEL_NOTE = "Names restricted to the parser's documented table; trusts vf/sem.py; expressions bounded to depth 4."
TECHNIQUE = "property-based testing (Hypothesis), print/parse round-trip + denotational equality with exact rational arithmetic"
