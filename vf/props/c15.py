"""C15 — implied conditional independencies are enumerated exactly."""

from __future__ import annotations

import itertools as itt

from hypothesis import strategies as st

from .. import gen
from ..common import Outcome
from ..ref_sep import SepOracle
from ..y0util import V, build_graph, graph_key, graph_sample, reinsert

ID = "C15"
RULE = (
    "Generate an ADMG (1..6 nodes, isolated nodes kept, motif-planted variants), a size limit k in {None,0,1,2,3,4} and "
    "a retention mode among the built-in ones (default topological policy; minimal()'s default length-lexicographic "
    "policy; each with first-hit enumeration or return_all=True). Compare the returned set with a brute force over "
    "all unordered pairs and all conditioning sets of size <= k using the independent m-separation oracle: exactly one "
    "judgement per separable pair, none for others, every judgement true and flagged separated, canonical, with a "
    "conditioning set of the brute-force minimum size; the same set of pairs/sizes on an insertion-order-permuted copy. "
    "Non-trivial = graph has >=1 bidirected edge, >=1 separable and >=1 inseparable pair; distinct = (graph, k, mode)."
)
ASSUMPTIONS = [
    "graphs bounded to 6 nodes",
    "size limit read inclusively ('Longest set of conditions to investigate')",
    "built-in retention policies only: get_topological_policy (default) and minimal()'s default",
    "oracle: Bayes-ball on the latent-expanded DAG cross-checked with networkx",
]
BUDGET = {
    "quick": dict(examples=300, shards=16, seconds=240, exhaustive=True, exhaustive_shards=8),
    "thorough": dict(examples=1500, shards=16, seconds=1500, exhaustive=True, exhaustive_shards=16),
}
ESSENTIAL_LABELS = {t: ["limit-binds", "mode=default", "mode=lenlex-all", "k=None"] for t in ("quick", "thorough")}
EXHAUSTIVE_NOTE = "all ADMGs on 3 labelled nodes x k in {None,0,1} x all four retention modes"

MODES = ["default", "default-all", "lenlex", "lenlex-all"]


@st.composite
def _case(draw, gs):
    g = draw(gs)
    k = draw(st.sampled_from([None, None, 0, 1, 2, 3, 4]))
    mode = draw(st.sampled_from(MODES))
    return {"g": g, "k": k, "mode": mode}


def strategy(tier):
    return st.one_of(
        _case(gen.with_aux_names(gen.admgs(1, 6))),
        _case(gen.admgs(3, 6, bi_densities=(2, 4), di_densities=(1, 2, 3))),
        _case(gen.with_aux_names(gen.embedded_admgs(2))),
        _case(gen.embedded_admgs(1, motifs=gen.SEP_MOTIFS)),
    )


def exhaustive(tier):
    from .c04 import exhaustive as graphs

    for c in graphs(tier):
        for k in (None, 0, 1):
            for mode in MODES:
                yield {"g": c["g"], "k": k, "mode": mode}


def _call(graph, k, mode):
    from y0.algorithm.conditional_independencies import d_separations, get_conditional_independencies, minimal

    if mode == "default":
        return get_conditional_independencies(graph, max_conditions=k)
    if mode == "default-all":
        return get_conditional_independencies(graph, max_conditions=k, return_all=True)
    if mode == "lenlex":
        return minimal(d_separations(graph, max_conditions=k))
    if mode == "lenlex-all":
        return minimal(d_separations(graph, max_conditions=k, return_all=True))
    raise ValueError(mode)


def brute(g, k, oracle):
    """{frozenset pair: minimum separating size <= k} for separable pairs."""
    res = {}
    nodes = sorted(g["nodes"])
    for a, b in itt.combinations(nodes, 2):
        rest = [n for n in nodes if n not in (a, b)]
        top = len(rest) if k is None else min(k, len(rest))
        for r in range(top + 1):
            if any(oracle.separated(a, b, c) for c in itt.combinations(rest, r)):
                res[frozenset((a, b))] = r
                break
    return res


def check(case) -> Outcome:
    from y0.struct import DSeparationJudgement

    g, k, mode = case["g"], case["k"], case["mode"]
    graph = build_graph(g)
    oracle = SepOracle(g["nodes"], g["di"], g["bi"])
    out = Outcome(key=f"{graph_key(g)}|k={k}|{mode}", sample={**graph_sample(g), "max_conditions": k, "mode": mode})
    want = brute(g, k, oracle)
    unlimited = brute(g, None, oracle) if k is not None else want
    labels = {f"k={k}", f"mode={mode}", f"n={len(g['nodes'])}"}
    if len(unlimited) > len(want):
        labels.add("limit-binds")
    if k is not None and any(s == k for s in want.values()):
        labels.add("pair-needs-exactly-k")
    try:
        got = _call(graph, k, mode)
        got2 = _call(build_graph(reinsert(g)), k, mode)
    except Exception as e:
        out.ok = False
        out.detail = {"kind": "exception", "exc": repr(e)[:300], "case": case}
        return out

    def fail(kind, **kw):
        out.ok = False
        out.detail = {"kind": kind, "case": case, **kw}
        out.labels = sorted(labels)
        return out

    if not isinstance(got, set):
        return fail("not-a-set", type=str(type(got)))
    seen = {}
    for j in got:
        if not isinstance(j, DSeparationJudgement):
            return fail("not-a-judgement", item=repr(j))
        pair = frozenset((j.left.name, j.right.name))
        cond = [c.name for c in j.conditions]
        if not j.is_canonical:
            return fail("not-canonical", judgement=repr(j))
        if not j.separated:
            return fail("judgement-not-flagged-separated", judgement=repr(j))
        if len(pair) != 2 or set(cond) & pair or not set(cond) <= set(g["nodes"]) or not pair <= set(g["nodes"]):
            return fail("malformed-judgement", judgement=repr(j))
        if pair in seen:
            return fail("two-judgements-for-one-pair", pair=sorted(pair), first=seen[pair], second=cond)
        seen[pair] = cond
        a, b = sorted(pair)
        if not oracle.separated(a, b, cond):
            return fail("listed-judgement-is-not-a-separation", pair=[a, b], conditions=cond)
        if pair not in want:
            return fail("pair-not-separable-within-limit", pair=[a, b], conditions=cond, k=k)
        if len(cond) != want[pair]:
            return fail("conditioning-set-not-minimum-size", pair=[a, b], conditions=cond, minimum=want[pair])
    missing = [sorted(p) for p in want if p not in seen]
    if missing:
        return fail("separable-pair-missing", missing=missing, sizes=[want[frozenset(p)] for p in missing], k=k)
    sig = sorted((sorted(p), len(c)) for p, c in seen.items())
    sig2 = sorted((sorted((j.left.name, j.right.name)), len(j.conditions)) for j in got2)
    if sig != sig2:
        return fail("insertion-order", first=sig, second=sig2)
    npairs = len(g["nodes"]) * (len(g["nodes"]) - 1) // 2
    out.nontrivial = bool(g["bi"]) and 0 < len(want) < npairs
    out.labels = sorted(labels)
    return out


LEVEL_TEXT = (
    "Generated-input search: the returned independency set for thousands of random and motif-planted ADMGs (<=6 nodes), "
    "size limits and built-in retention modes is compared, in both directions, with a brute-force enumeration driven by an "
    "independent m-separation oracle; all ADMGs on 3 labelled nodes are enumerated completely. Exploration is the right "
    "level: the oracle is exact and the input space is unbounded."
)
LEVEL_NOTE = "Trusts the Bayes-ball oracle (cross-checked with networkx); graphs bounded to 6 nodes; size limit read inclusively."
TECHNIQUE = "property-based testing (Hypothesis) + exhaustive small-scope enumeration, differential against a brute-force m-separation enumeration"
