#!/opt/veriftools/pyvenv/bin/python
import json, jsonschema, glob, sys
ok = True
jsonschema.validate(json.load(open('/verif/MANIFEST.json')), json.load(open('/root/.vp/MANIFEST.schema.json')))
sch = json.load(open('/root/.vp/EVIDENCE.schema.json'))
for f in sorted(glob.glob('/verif/evidence/C*.json')):
    try: jsonschema.validate(json.load(open(f)), sch)
    except Exception as e: ok = False; print('INVALID', f, str(e)[:300])
print('valid' if ok else 'INVALID'); sys.exit(0 if ok else 1)
