"""C20 — sigma-separation agrees with d-separation on acyclic graphs; symmetric / adjacency-sound on all mixed graphs."""

from __future__ import annotations

import itertools as itt

import networkx as nx
from hypothesis import strategies as st

from .. import gen
from ..common import Outcome
from ..ref_sep import SepOracle, acyclification
from ..y0util import V, as_iterable, build_graph, graph_key, graph_sample, reinsert

ID = "C20"
RULE = (
    "Generate a directed mixed graph (1..5 nodes; acyclic ADMGs, motif-planted ADMGs, and graphs with directed cycles "
    "including 2-cycles). For every ordered pair (a,b) and every C subset of the other nodes call are_sigma_separated. "
    "Acyclic graphs: verdict must equal d-separation in the latent-expanded DAG (Bayes-ball oracle cross-checked with "
    "networkx). All graphs: verdict(a,b|C) == verdict(b,a|C), verdict is the same on an insertion-order-permuted copy, "
    "nodes joined by any edge are never reported separated, and the result is a bool. On cyclic graphs the agreement "
    "with d-separation in the Forre-Mooij acyclification is measured as a label only (the property does not claim it). "
    "One case = one graph with all its queries. Non-trivial = acyclic graph with a pair joined by both -> and <-> or a "
    "collider opened only by a conditioned descendant >=2 steps away, or a cyclic graph with a strongly connected "
    "component of size >=2; distinct = distinct labelled graph."
)
ASSUMPTIONS = [
    "graphs bounded to 5 nodes (simple-path enumeration in the implementation is exponential)",
    "oracle on acyclic graphs: Bayes-ball on the latent-expanded DAG, cross-checked against networkx.is_d_separator",
    "cutoff parameter left at its default (None)",
]
BUDGET = {
    "quick": dict(examples=250, shards=16, seconds=240, exhaustive=True, exhaustive_shards=8),
    "thorough": dict(examples=700, shards=16, seconds=1500, exhaustive=True, exhaustive_shards=16),
}
ESSENTIAL_LABELS = {
    t: ["acyclic", "cyclic", "both-edge-pair", "far-descendant-collider", "scc>=2"] for t in ("quick", "thorough")
}
EXHAUSTIVE_NOTE = "all directed mixed graphs on 3 labelled nodes A,B,C (per pair: none/->/<-/2-cycle x bidirected yes/no) x all ordered pairs x all conditioning sets"


def strategy(tier):
    return st.one_of(
        gen.with_aux_names(gen.admgs(2, 5)).map(lambda g: {"g": g}),
        gen.admgs(3, 5, bi_densities=(3, 5, 7), di_densities=(3, 5, 7)).map(lambda g: {"g": g}),
        gen.with_aux_names(gen.embedded_admgs(1)).map(lambda g: {"g": g}),
        gen.embedded_admgs(0, motifs=gen.SEP_MOTIFS).map(lambda g: {"g": g}),
        gen.admgs(2, 5, cyclic=True).map(lambda g: {"g": g}),
        gen.admgs(3, 5, cyclic=True, di_densities=(5, 7, 9)).map(lambda g: {"g": g}),
    )


def exhaustive(tier):
    names = ["A", "B", "C"]
    pairs = list(itt.combinations(names, 2))
    for dchoice in itt.product([0, 1, 2, 3], repeat=3):
        di = []
        for (u, v), c in zip(pairs, dchoice):
            if c in (1, 3):
                di.append([u, v])
            if c in (2, 3):
                di.append([v, u])
        for bchoice in itt.product([0, 1], repeat=3):
            bi = [[u, v] for (u, v), c in zip(pairs, bchoice) if c]
            yield {"g": {"nodes": names, "di": di, "bi": bi}}


def _queries(nodes):
    for a, b in itt.combinations(nodes, 2):
        rest = [n for n in nodes if n not in (a, b)]
        for r in range(len(rest) + 1):
            for c in itt.combinations(rest, r):
                yield a, b, c


def check(case) -> Outcome:
    from y0.algorithm.separation.sigma_separation import are_sigma_separated

    g = case["g"]
    # normalise: drop duplicate edges/self loops a generator might produce
    graph = build_graph(g)
    graph2 = build_graph(reinsert(g))
    dg = nx.DiGraph()
    dg.add_nodes_from(g["nodes"])
    dg.add_edges_from(map(tuple, g["di"]))
    acyclic = nx.is_directed_acyclic_graph(dg)
    out = Outcome(key=graph_key(g), sample=graph_sample(g))
    labels = {"acyclic" if acyclic else "cyclic", f"n={len(g['nodes'])}"}
    oracle = SepOracle(g["nodes"], g["di"], g["bi"]) if acyclic else None
    acy = None
    if not acyclic:
        an, ad, ab = acyclification(g["nodes"], g["di"], g["bi"])
        acy = SepOracle(an, ad, ab, cross_check=False)
        if any(len(c) >= 2 for c in nx.strongly_connected_components(dg)):
            labels.add("scc>=2")
    adjacent = {frozenset(e) for e in g["di"]} | {frozenset(e) for e in g["bi"]}
    di_set = {tuple(e) for e in g["di"]}
    bi_set = {frozenset(e) for e in g["bi"]}
    if acyclic and any(frozenset(e) in bi_set for e in di_set):
        labels.add("both-edge-pair")
    queries = [tuple(case["query"][:2]) + (tuple(case["query"][2]),)] if case.get("query") else _queries(g["nodes"])
    nt = False
    for qn, (a, b, c) in enumerate(queries):
        cv = [V(x) for x in c]
        try:
            r_ab = are_sigma_separated(graph, V(a), V(b), conditions=as_iterable(cv, qn))
            r_ba = are_sigma_separated(graph, V(b), V(a), conditions=as_iterable(reversed(cv), qn + 3))
            r_re = are_sigma_separated(graph2, V(a), V(b), conditions=cv)
        except Exception as e:
            out.ok = False
            out.detail = {"kind": "exception", "query": [a, b, list(c)], "exc": repr(e)[:300], "graph": g}
            return out
        problem = None
        want = None
        if not isinstance(r_ab, bool):
            problem = "not-a-bool"
        elif r_ab != r_ba:
            problem = "asymmetric"
        elif r_ab != r_re:
            problem = "insertion-order"
        elif r_ab and frozenset((a, b)) in adjacent:
            problem = "adjacent-reported-separated"
        elif acyclic:
            want = oracle.separated(a, b, c)
            if r_ab != want:
                problem = "verdict-differs-from-d-separation"
            # far-descendant collider: connected given C, separated given nothing, and no conditioned node is
            # a collider itself or the child of one on... (approximation: every node of C has no two in-arrows but a
            # strict ancestor of C does)
            if not want and c and oracle.separated(a, b, ()):
                labels.add("opened-by-conditioning")
                if _far_descendant(g, a, b, c, oracle):
                    labels.add("far-descendant-collider")
                    nt = True
        else:
            want = acy.separated(a, b, c)
            labels.add("cyclic-agrees-with-acyclification" if want == r_ab else "cyclic-differs-from-acyclification")
        if problem:
            out.ok = False
            out.detail = {"kind": problem, "query": [a, b, list(c)], "y0_ab": r_ab, "y0_ba": r_ba, "y0_reinserted": r_re, "oracle_separated": want, "acyclic": acyclic, "graph": g}
            out.labels = sorted(labels)
            return out
    if "both-edge-pair" in labels or "scc>=2" in labels:
        nt = True
    out.labels = sorted(labels)
    out.nontrivial = nt
    return out


def _far_descendant(g, a, b, c, oracle) -> bool:
    """Some collider node (>=2 arrowheads into it) has a conditioned strict descendant at distance >=2, is not itself
    conditioned, has no conditioned child, and removing that far descendant from C re-separates a and b."""
    dg = nx.DiGraph()
    dg.add_nodes_from(g["nodes"])
    dg.add_edges_from(map(tuple, g["di"]))
    cs = set(c)
    for z in c:
        rest = [x for x in c if x != z]
        if not oracle.separated(a, b, rest):
            continue
        # z is needed to open the path; find a collider at distance >= 2 above z, with nothing nearer conditioned
        for m in nx.ancestors(dg, z):
            if m in cs:
                continue
            if nx.shortest_path_length(dg, m, z) < 2:
                continue
            heads = dg.in_degree(m) + sum(1 for e in g["bi"] if m in e)
            if heads >= 2 and not (set(dg.successors(m)) & cs):
                return True
    return False


LEVEL_TEXT = (
    "Generated-input search: all pairs and conditioning sets of thousands of random acyclic and cyclic directed mixed graphs "
    "(<=5 nodes) plus the complete enumeration of all 512 mixed graphs on 3 labelled nodes. Acyclic verdicts are compared "
    "with an independent d-separation oracle; all verdicts are checked for symmetry, insertion-order independence and "
    "adjacency soundness. Exploration is the right level: the claim quantifies over all graphs and the oracle is exact and cheap."
)
LEVEL_NOTE = "Trusts the Bayes-ball oracle (cross-checked with networkx on every acyclic query); graphs bounded to 5 nodes; cutoff=None only."
TECHNIQUE = "property-based testing (Hypothesis) + exhaustive small-scope enumeration; differential against a d-separation reference, metamorphic symmetry/adjacency relations on cyclic graphs"
