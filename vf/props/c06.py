"""C06 — estimands mention only distributions the analyst actually has."""

from __future__ import annotations

import importlib
import itertools as itt

from hypothesis import strategies as st

from .. import cfutil
from ..common import Outcome
from ..sem import interventions_of
from ..y0util import V, build_graph, graph_key
from . import c01, c03, c05, c07, c08

ID = "C06"
RULE = (
    "Reuse the input generators of C01 (ID), C03 (IDC), C05 (TRSO), C07 (ID*) and C08 (IDC*) -- no model is needed, so "
    "many more cases run -- call the algorithm and walk the returned expression tree. ID/IDC: every leaf is a plain "
    "Probability over undecorated nodes of the user's graph (no subscripts, no value marks, no population tag), Sum ranges "
    "are nodes of the graph, no name outside V(G) (no T_*, no latent) occurs. TRSO: every leaf is a PopulationProbability "
    "whose population is pi* with no subscripts, or a declared source domain whose subscript set is a subset of that "
    "domain's experimental variables Z_i; no transport node anywhere. ID*/IDC*: every probability leaf carries one "
    "common subscript set on all its variables (single-world); names are nodes of the graph. Non-trivial = an answer "
    "with >=2 leaves; distinct = distinct (algorithm, input)."
)
ASSUMPTIONS = [
    "input spaces and bounds of C01, C03, C05, C07, C08",
    "purely syntactic check of the returned tree; the meaning of the terms is judged by the other properties",
]
BUDGET = {
    "quick": dict(examples=1500, shards=16, seconds=200),
    "thorough": dict(examples=15000, shards=16, seconds=2400),
}
ALGS = ["id", "idc", "trso", "idstar", "idcstar"]
ESSENTIAL_LABELS = {t: ["alg:" + a for a in ALGS] + ["trso:source-term", "idstar:subscripted-term"] for t in ("quick", "thorough")}


def strategy(tier):
    return st.one_of(
        c01.strategy(tier).map(lambda c: {"alg": "id", **c}),
        c03.strategy(tier).map(lambda c: {"alg": "idc", **c}),
        c05.strategy(tier).map(lambda c: {"alg": "trso", **c}),
        c05.strategy(tier).map(lambda c: {"alg": "trso", **c}),
        c07.strategy(tier).map(lambda c: {"alg": "idstar", **c}),
        c08.strategy(tier).map(lambda c: {"alg": "idcstar", **c}),
    )


def walk(e):
    """Yield (kind, node) for every node of the expression tree."""
    from y0.dsl import Fraction, Probability, Product, QFactor, Sum

    stack = [e]
    while stack:
        x = stack.pop()
        yield x
        if isinstance(x, Product):
            stack.extend(x.expressions)
        elif isinstance(x, Sum):
            stack.append(x.expression)
        elif isinstance(x, Fraction):
            stack.append(x.numerator)
            stack.append(x.denominator)


def check(case) -> Outcome:
    from y0.algorithm.identify import Unidentifiable, identify_outcomes
    from y0.dsl import CounterfactualVariable, Expression, Fraction, One, PopulationProbability, Probability, Product, QFactor, Sum, Variable, Zero

    alg, g = case["alg"], case["g"]
    graph = build_graph(g)
    nodes = set(g["nodes"])
    out = Outcome()
    labels = {"alg:" + alg}

    def fail(kind, **kw):
        out.ok = False
        out.detail = {"kind": kind, "alg": alg, "case": {k: v for k, v in case.items() if k not in ("mseed",)}, **kw}
        out.labels = sorted(labels)
        return out

    est = None
    try:
        if alg == "id":
            out.key = f"id|{graph_key(g)}|{case['X']}|{case['Y']}"
            est = identify_outcomes(graph, {V(x) for x in case["X"]}, {V(y) for y in case["Y"]})
        elif alg == "idc":
            out.key = f"idc|{graph_key(g)}|{case['X']}|{case['Y']}|{case['Z']}"
            est = identify_outcomes(graph, {V(x) for x in case["X"]}, {V(y) for y in case["Y"]}, conditions={V(z) for z in case["Z"]})
        elif alg == "trso":
            out.key = f"trso|{graph_key(g)}|{case['X']}|{case['Y']}|{case['domains']}"
            tr = importlib.import_module("y0.algorithm.transport")
            est = tr.identify_target_outcomes(
                graph,
                target_outcomes={V(y) for y in case["Y"]},
                target_interventions={V(x) for x in case["X"]},
                surrogate_outcomes={Variable(d["pop"]): {V(w) for w in d["W"]} for d in case["domains"]},
                surrogate_interventions={Variable(d["pop"]): {V(z) for z in d["Z"]} for d in (list(reversed(case["domains"])) if len(case["domains"]) % 2 == 0 or sum(len(d["Z"]) for d in case["domains"]) % 2 else case["domains"])},
            )
        elif alg == "idstar":
            out.key = f"idstar|{graph_key(g)}|{cfutil.show(case['event'])}"
            ids = importlib.import_module("y0.algorithm.identify.id_star")
            est = ids.id_star(graph, cfutil.build_event(case["event"]))
        elif alg == "idcstar":
            out.key = f"idcstar|{graph_key(g)}|{cfutil.show(case['outcomes'])}|{cfutil.show(case['conditions'])}"
            if not case["conditions"]:
                out.labels = ["idcstar:no-conditions(skipped)"]
                return out
            idc = importlib.import_module("y0.algorithm.identify.idc_star")
            est = idc.idc_star(graph, cfutil.build_event(case["outcomes"]), cfutil.build_event(case["conditions"]))
    except Exception as e:  # refusals and errors are judged by C02/C03/C05/C07/C08, not here
        labels.add("no-answer:" + type(e).__name__)
        out.labels = sorted(labels)
        return out
    if est is None:
        labels.add("no-answer:None")
        out.labels = sorted(labels)
        return out
    if not isinstance(est, Expression):
        return fail("non-expression-returned", type=str(type(est)))
    text = est.to_y0()
    out.sample = {"alg": alg, "estimand": text[:300]}
    nleaves = 0
    declared = {d["pop"]: set(d["Z"]) for d in case.get("domains", [])}
    for x in walk(est):
        if isinstance(x, Sum):
            bad = [r.name for r in x.ranges if r.name not in nodes or r.star is not None or isinstance(r, CounterfactualVariable)]
            if bad:
                return fail("sum-range-outside-the-graph", names=bad, estimand=text)
        elif isinstance(x, QFactor):
            return fail("q-factor-in-estimand", estimand=text)
        elif isinstance(x, Probability):
            nleaves += 1
            vs = list(itt.chain(x.children, x.parents))
            names = {v.name for v in vs} | {i.name for v in vs for i in interventions_of(v)}
            outside = sorted(names - nodes)
            if outside:
                return fail("name-outside-the-users-graph", names=outside, term=x.to_y0(), estimand=text)
            worlds = {interventions_of(v) for v in vs}
            if alg in ("id", "idc"):
                if isinstance(x, PopulationProbability):
                    return fail("population-term-in-ID-estimand", term=x.to_y0(), estimand=text)
                if any(isinstance(v, CounterfactualVariable) for v in vs):
                    return fail("intervention-subscript-in-ID-estimand", term=x.to_y0(), estimand=text)
                if any(v.star is not None for v in vs):
                    return fail("value-mark-in-ID-estimand", term=x.to_y0(), estimand=text)
            elif alg == "trso":
                if not isinstance(x, PopulationProbability):
                    return fail("untagged-term-in-transport-estimand", term=x.to_y0(), estimand=text)
                pop = x.population.name
                if len(worlds) != 1:
                    return fail("multi-world-term-in-transport-estimand", term=x.to_y0(), estimand=text)
                subs = {i.name for i in next(iter(worlds))}
                if pop == "pi*":
                    if subs:
                        return fail("experimental-term-of-the-target-domain", term=x.to_y0(), estimand=text)
                elif pop not in declared:
                    return fail("undeclared-population", term=x.to_y0(), estimand=text)
                else:
                    labels.add("trso:source-term")
                    if not subs <= declared[pop]:
                        return fail("experiment-not-declared-for-the-domain", term=x.to_y0(), declared=sorted(declared[pop]), estimand=text)
            else:  # idstar / idcstar
                if isinstance(x, PopulationProbability):
                    return fail("population-term-in-counterfactual-estimand", term=x.to_y0(), estimand=text)
                if len(worlds) != 1:
                    return fail("term-mixes-worlds", term=x.to_y0(), estimand=text)
                if next(iter(worlds)):
                    labels.add("idstar:subscripted-term")
        elif not isinstance(x, Product | Fraction | One | Zero):
            return fail("unknown-node-type", type=str(type(x)), estimand=text)
    out.nontrivial = nleaves >= 2
    out.labels = sorted(labels)
    return out


LEVEL_TEXT = (
    "Generated-input search with a syntactic validity predicate over the returned expression trees of all five algorithms, on the "
    "input spaces of C01/C03/C05/C07/C08 without the cost of a model, so tens of thousands of answers are inspected. "
    "Exploration is the right level: the claim quantifies over every answer the algorithms can produce."
)
LEVEL_NOTE = "Syntactic only; bounded input sizes as in C01/C03/C05/C07/C08."
TECHNIQUE = "property-based testing (Hypothesis) with a validity predicate over returned expression trees"
