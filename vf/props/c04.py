"""C04 — d-separation verdicts equal true m-separation in the mixed graph."""

from __future__ import annotations

import itertools as itt

from hypothesis import strategies as st

from .. import gen
from ..common import Outcome
from ..ref_sep import SepOracle
from ..y0util import V, build_graph, graph_key, graph_sample, reinsert

ID = "C04"
RULE = (
    "Generate an ADMG (1..6 nodes, drawn densities, drawn insertion orders, isolated nodes kept; or a planted motif "
    "such as the bidirected collider chain a<->c<->b). For every ordered pair (a,b) and every C subset of the other "
    "nodes compare are_d_separated with d-separation in the latent-expanded DAG (Bayes-ball, cross-checked with "
    "networkx.is_d_separator); also (b,a) symmetry, insertion-order invariance and canonical judgement fields. "
    "One case = one graph with all its queries. Non-trivial = graph has >=3 nodes and >=1 bidirected edge and at "
    "least one verdict of each kind; distinct = distinct labelled graph."
)
ASSUMPTIONS = [
    "graphs bounded to 6 nodes (thorough 7 with sampled conditioning sets)",
    "oracle: Bayes-ball on the latent-expanded DAG, cross-checked against networkx.is_d_separator",
]
BUDGET = {
    "quick": dict(examples=70, shards=16, seconds=240, exhaustive=True, exhaustive_shards=8),
    "thorough": dict(examples=1500, shards=16, seconds=1500, exhaustive=True, exhaustive_shards=16),
}
ESSENTIAL_LABELS = {"quick": ["collider-via-bidirected"], "thorough": ["collider-via-bidirected"]}
EXHAUSTIVE_NOTE = "all ADMGs on 3 labelled nodes A,B,C (3 forward/backward/none choices x bidirected yes/no per pair, acyclic only) x all ordered pairs x all conditioning sets"


def strategy(tier):
    mx = 6
    return st.one_of(
        gen.with_aux_names(gen.admgs(1, mx)).map(lambda g: {"g": g}),
        gen.admgs(3, mx, bi_densities=(3, 5, 7), di_densities=(1, 3, 5)).map(lambda g: {"g": g}),
        gen.with_aux_names(gen.embedded_admgs(2)).map(lambda g: {"g": g}),
        gen.embedded_admgs(1, motifs=gen.SEP_MOTIFS).map(lambda g: {"g": g}),
    )


def exhaustive(tier):
    import networkx as nx

    names = ["A", "B", "C"]
    pairs = list(itt.combinations(names, 2))
    for dchoice in itt.product([0, 1, 2], repeat=3):
        di = []
        for (u, v), c in zip(pairs, dchoice):
            if c == 1:
                di.append([u, v])
            elif c == 2:
                di.append([v, u])
        if not nx.is_directed_acyclic_graph(nx.DiGraph(di)):
            continue
        for bchoice in itt.product([0, 1], repeat=3):
            bi = [[u, v] for (u, v), c in zip(pairs, bchoice) if c]
            yield {"g": {"nodes": names, "di": di, "bi": bi}}


def _queries(nodes):
    for a, b in itt.permutations(nodes, 2):
        rest = [n for n in nodes if n not in (a, b)]
        for r in range(len(rest) + 1):
            for c in itt.combinations(rest, r):
                yield a, b, c


def check(case) -> Outcome:
    from y0.algorithm.conditional_independencies import are_d_separated
    from y0.struct import DSeparationJudgement

    g = case["g"]
    graph = build_graph(g)
    graph2 = build_graph(reinsert(g))
    from ..y0util import as_iterable, build_graph_incremental

    try:
        graph3 = build_graph_incremental(g)
    except Exception as e:
        out = Outcome(key=graph_key(g), sample=graph_sample(g))
        out.ok = False
        out.detail = {"kind": "query-raised-during-incremental-construction", "exc": repr(e)[:300], "graph": g}
        return out
    oracle = SepOracle(g["nodes"], g["di"], g["bi"])
    out = Outcome(key=graph_key(g), sample=graph_sample(g))
    labels = set()
    nq = 0
    verdicts = set()
    bi_nodes = {x for e in g["bi"] for x in e}
    queries = [tuple(case["query"][:2]) + (tuple(case["query"][2]),)] if case.get("query") else _queries(g["nodes"])
    for qn, (a, b, c) in enumerate(queries):
        nq += 1
        want = oracle.separated(a, b, c)
        try:
            j = are_d_separated(graph, V(a), V(b), conditions=as_iterable([V(x) for x in c], qn))
            j2 = are_d_separated(graph2, V(a), V(b), conditions=as_iterable([V(x) for x in reversed(c)], qn + 3))
        except Exception as e:  # a valid query must be answered
            out.ok = False
            out.detail = {"kind": "exception", "query": [a, b, list(c)], "exc": repr(e)[:300], "graph": g}
            return out
        got = bool(j)
        verdicts.add(want)
        if set(c) & bi_nodes:
            labels.add("cond-has-bidirected-node")
            # a conditioned node (or an ancestor of one) that is a collider only through a bidirected edge
            if not want and oracle.separated(a, b, [x for x in c if x not in bi_nodes]):
                labels.add("collider-via-bidirected")
        problem = None
        if got != want:
            problem = "verdict"
        elif bool(j2) != got:
            problem = "insertion-order"
        elif bool(are_d_separated(graph3, V(a), V(b), conditions=[V(x) for x in c])) != got:
            problem = "verdict-depends-on-how-the-graph-object-was-built"
        elif not isinstance(j, DSeparationJudgement) or not j.is_canonical or set(j.conditions) != {V(x) for x in c} or {j.left, j.right} != {V(a), V(b)}:
            problem = "judgement-fields"
        if problem:
            out.ok = False
            out.detail = {"kind": problem, "query": [a, b, list(c)], "y0_separated": got, "oracle_separated": want, "reinserted_separated": bool(j2), "graph": g}
            return out
    # symmetry: all ordered pairs were compared with a symmetric oracle, so (a,b)==(b,a) is implied when all agree
    labels.add("queries=%s" % ("0" if nq == 0 else "1-20" if nq <= 20 else "21-160" if nq <= 160 else ">160"))
    labels.add(f"n={len(g['nodes'])}")
    if g.get("motif"):
        labels.add("motif")
    out.labels = sorted(labels)
    out.nontrivial = len(g["nodes"]) >= 3 and len(g["bi"]) >= 1 and len(verdicts) == 2
    return out

LEVEL_TEXT = (
    "Generated-input search: every ordered pair and every conditioning set of thousands of random and motif-planted "
    "ADMGs (<=6 nodes) plus the complete enumeration of all ADMGs on 3 labelled nodes are compared with an independent "
    "m-separation oracle. Exploration is the right level: the property quantifies over all graphs and the oracle is cheap and exact."
)
LEVEL_NOTE = "Trusts the Bayes-ball oracle (cross-checked against networkx.is_d_separator on every query); graphs bounded to 6 nodes."
TECHNIQUE = "property-based testing (Hypothesis) + exhaustive small-scope enumeration, differential against an m-separation reference"
