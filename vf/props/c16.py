"""C16 — LV-DAG conversion round-trips; Evans simplification keeps the observed model."""

from __future__ import annotations

import itertools as itt

import networkx as nx
from hypothesis import strategies as st

from .. import gen
from ..common import Outcome, SplitMix
from ..ref_id import identifiable
from ..ref_sep import dsep_bayesball
from ..y0util import V, build_graph, graph_key, graph_sample

ID = "C16"
RULE = (
    "Two generators. (a) ADMGs (1..6 nodes, isolated nodes kept): from_latent_variable_dag(to_latent_variable_dag(G)) "
    "== G (default and custom tag/prefix/start). (b) DAGs on 2..8 nodes with a drawn latent subset (latents with "
    "parents, with 0/1/many children, nested latents, duplicated and nested child sets): simplify_latent_dag is "
    "idempotent (second application changes nothing and reports nothing), keeps exactly the observed nodes, leaves "
    "only parentless latents, and the ADMG read off the simplified DAG equals the latent projection computed "
    "independently (directed edge per latent-only directed path, bidirected edge per latent-only common ancestor); for all "
    "observed pairs and sampled conditioning sets, d-separation in the ORIGINAL DAG (Bayes-ball) equals "
    "are_d_separated on the simplified ADMG; identifiability verdicts of sampled queries agree between the projection "
    "and the simplified ADMG; evans_simplify(ADMG, latents=S) equals the projection of the ADMG's latent DAG with S hidden. "
    "Non-trivial = at least one Evans rule fired (returned sets non-empty or a latent with parents was transformed); "
    "distinct = distinct (graph, latent set)."
)
ASSUMPTIONS = [
    "DAGs bounded to 8 nodes, ADMGs to 6",
    "latent projection oracle written from the property's definition; separation oracle = Bayes-ball on the original DAG",
    "node names never end in the '_prime' suffix the library uses for transformed latents",
]
BUDGET = {
    "quick": dict(examples=800, shards=16, seconds=200),
    "thorough": dict(examples=5000, shards=16, seconds=2400),
}
ESSENTIAL_LABELS = {t: ["kind:roundtrip", "kind:dag", "kind:evans", "rule:widow", "rule:unidirectional", "rule:redundant", "rule:latent-with-parents", "nested-latents", "isolated-node"] for t in ("quick", "thorough")}


@st.composite
def _dag_case(draw):
    n = draw(st.integers(2, 8))
    names = [f"V{i}" for i in range(n)]
    order = list(draw(st.permutations(names)))
    pd = draw(st.sampled_from([2, 4, 6]))
    edges = [[order[i], order[j]] for i, j in itt.combinations(range(n), 2) if draw(st.integers(0, 9)) < pd]
    pl = draw(st.sampled_from([2, 4, 6]))
    latents = sorted(x for x in names if draw(st.integers(0, 9)) < pl)
    if len(latents) == n:
        latents = latents[1:]
    # plant latents whose child sets duplicate / nest inside another latent's child set (the redundancy rule)
    extra = 0
    for l in list(latents):
        kids = sorted({v for u, v in edges if u == l})
        if len(kids) >= 2 and draw(st.integers(0, 2)) == 0:
            sub = kids if draw(st.booleans()) else kids[: draw(st.integers(2, len(kids)))]
            w = f"W{extra}"
            extra += 1
            names = names + [w]
            latents = latents + [w]
            edges = edges + [[w, k] for k in sub]
    latents = sorted(latents)
    if latents and draw(st.integers(0, 5)) == 0:
        # an observed node that happens to carry the name the library gives to the exogenous copy of a latent with parents
        obs = [x for x in names if x not in latents]
        if obs:
            victim, lat = draw(st.sampled_from(obs)), draw(st.sampled_from(latents))
            new_name = lat + "_prime"
            names = [new_name if x == victim else x for x in names]
            edges = [[new_name if x == victim else x for x in e] for e in edges]
    return {"kind": "dag", "nodes": list(draw(st.permutations(names))), "edges": list(draw(st.permutations(edges))) if edges else [], "latents": latents, "pick": draw(st.integers(0, 2**20))}


@st.composite
def _evans_case(draw):
    g = draw(gen.admgs(2, 6))
    lat = draw(gen.subsets(g["nodes"], 0, max(0, len(g["nodes"]) - 1)))
    return {"kind": "evans", "g": g, "latents": lat, "pick": draw(st.integers(0, 2**20))}


def strategy(tier):
    return st.one_of(
        gen.with_aux_names(gen.admgs(1, 6), 3).map(lambda g: {"kind": "roundtrip", "g": g}),
        gen.admgs(2, 6, bi_densities=(1, 2), di_densities=(1, 2)).map(lambda g: {"kind": "roundtrip", "g": g}),
        _dag_case(),
        _dag_case(),
        _dag_case(),
        _evans_case(),
    )


# ---------------------------------------------------------------------------
# oracle: latent projection


def projection(nodes, edges, latents):
    """(observed nodes, directed set, bidirected set of frozensets) of the latent projection."""
    latents = set(latents)
    obs = [n for n in nodes if n not in latents]
    ch = {n: set() for n in nodes}
    for u, v in edges:
        ch[u].add(v)

    def reach_obs(start):
        """observed nodes reachable from ``start`` by directed paths whose inner nodes are all latent."""
        out, seen, stack = set(), set(), list(ch[start])
        while stack:
            x = stack.pop()
            if x in seen:
                continue
            seen.add(x)
            if x in latents:
                stack.extend(ch[x])
            else:
                out.add(x)
        return out

    di = {(a, b) for a in obs for b in reach_obs(a)}
    bi = set()
    for l in latents:
        r = sorted(reach_obs(l))
        for a, b in itt.combinations(r, 2):
            bi.add(frozenset((a, b)))
    return obs, di, bi


def _graph_sets(graph):
    return (
        {n.name for n in graph.nodes()},
        {(u.name, v.name) for u, v in graph.directed.edges()},
        {frozenset((u.name, v.name)) for u, v in graph.undirected.edges()},
    )


def _dag_state(d, tag):
    return (
        sorted((str(n), bool(data[tag])) for n, data in d.nodes(data=True)),
        sorted((str(u), str(v)) for u, v in d.edges()),
    )


def check(case) -> Outcome:
    from y0.algorithm.conditional_independencies import are_d_separated
    from y0.algorithm.identify import identify_outcomes
    from y0.algorithm.simplify_latent import evans_simplify, simplify_latent_dag
    from y0.graph import DEFAULT_TAG, NxMixedGraph

    kind = case["kind"]
    out = Outcome()
    labels = {"kind:" + kind}

    def fail(k, **kw):
        out.ok = False
        out.detail = {"kind": k, "case": case, **kw}
        out.labels = sorted(labels)
        return out

    if kind == "roundtrip":
        g = case["g"]
        out.key = "rt|" + graph_key(g)
        out.sample = graph_sample(g)
        graph = build_graph(g)
        touched = {x for e in g["di"] + g["bi"] for x in e}
        if set(g["nodes"]) - touched:
            labels.add("isolated-node")
        for kw in ({}, {"tag": "is_latent", "prefix": "Lat", "start": 3}):
            try:
                lv = graph.to_latent_variable_dag(**kw)
                back = NxMixedGraph.from_latent_variable_dag(lv, **({"tag": kw["tag"]} if kw else {}))
            except Exception as e:
                return fail("conversion-raised", kwargs=kw, exc=repr(e)[:300])
            if not (back == graph and graph == back) or _graph_sets(back) != _graph_sets(graph):
                return fail("round-trip-differs", kwargs=kw, got=[sorted(map(str, s)) for s in _graph_sets(back)], want=[sorted(map(str, s)) for s in _graph_sets(graph)])
            tag = kw.get("tag", DEFAULT_TAG)
            lat = [n for n, d in lv.nodes(data=True) if d[tag]]
            if len(lat) != len({frozenset(e) for e in g["bi"]}) or {n.name for n, d in lv.nodes(data=True) if not d[tag]} != set(g["nodes"]):
                return fail("latent-dag-has-wrong-node-sets", kwargs=kw)
        out.nontrivial = bool(set(g["nodes"]) - touched) or bool(g["bi"])
        out.labels = sorted(labels)
        return out

    if kind == "evans":
        g, lat = case["g"], case["latents"]
        out.key = "ev|" + graph_key(g) + "|" + ",".join(lat)
        out.sample = {**graph_sample(g), "latents": lat}
        graph = build_graph(g)
        nodes = list(g["nodes"]) + [f"__L{k}" for k in range(len(g["bi"]))]
        edges = [list(e) for e in g["di"]]
        for k, (a, b) in enumerate(g["bi"]):
            edges += [[f"__L{k}", a], [f"__L{k}", b]]
        obs, di, bi = projection(nodes, edges, set(lat) | {f"__L{k}" for k in range(len(g["bi"]))})
        try:
            from ..y0util import as_iterable

            # latents is typed Variable | Iterable[Variable] | None: any iterable, a bare singleton, or None
            lv = [V(x) for x in lat]
            latents_arg = None if not lat else (lv[0] if len(lv) == 1 and case["pick"] % 3 == 0 else as_iterable(lv, case["pick"] % 7))
            r = evans_simplify(graph, latents=latents_arg)
        except Exception as e:
            return fail("evans_simplify-raised", exc=repr(e)[:300])
        got = _graph_sets(r)
        if got != (set(obs), di, bi):
            return fail("evans_simplify-differs-from-latent-projection", got=[sorted(map(str, s)) for s in got], want=[sorted(obs), sorted(di), sorted(map(sorted, bi))])
        out.nontrivial = bool(lat)
        out.labels = sorted(labels)
        return out

    # kind == "dag"
    nodes, edges, latents = case["nodes"], case["edges"], set(case["latents"])
    out.key = "dag|" + ",".join(sorted(nodes)) + "|" + ";".join(sorted(f"{u}>{v}" for u, v in edges)) + "|" + ",".join(sorted(latents))
    out.sample = {"nodes": nodes, "edges": [f"{u}->{v}" for u, v in edges], "latents": sorted(latents)}
    tag = DEFAULT_TAG

    def fresh():
        d = nx.DiGraph()
        for n in nodes:
            d.add_node(V(n), **{tag: n in latents})
        d.add_edges_from((V(u), V(v)) for u, v in edges)
        return d

    lat_children = {l: {v for u, v in edges if u == l} for l in latents}
    lat_parents = {l: {u for u, v in edges if v == l} for l in latents}
    if any(lat_parents[l] for l in latents):
        labels.add("rule:latent-with-parents")
    if any(lat_parents[l] & latents for l in latents):
        labels.add("nested-latents")
    d1 = fresh()
    try:
        r1 = simplify_latent_dag(d1, tag=tag)
    except Exception as e:
        return fail("simplify_latent_dag-raised", exc=repr(e)[:300])
    if r1.widows:
        labels.add("rule:widow")
    if r1.unidirectional_latents:
        labels.add("rule:unidirectional")
    if r1.redundant:
        labels.add("rule:redundant")
    g1 = r1.graph
    state1 = _dag_state(g1, tag)
    obs_before = {n for n in nodes if n not in latents}
    obs_after = {str(n) for n, data in g1.nodes(data=True) if not data[tag]}
    if obs_before != obs_after:
        return fail("observed-nodes-not-preserved", before=sorted(obs_before), after=sorted(obs_after))
    if not nx.is_directed_acyclic_graph(g1):
        return fail("result-not-acyclic")
    # idempotence
    d2 = g1.copy()
    try:
        r2 = simplify_latent_dag(d2, tag=tag)
    except Exception as e:
        return fail("second-simplification-raised", exc=repr(e)[:300])
    if _dag_state(r2.graph, tag) != state1 or r2.widows or r2.unidirectional_latents or r2.redundant:
        return fail("not-idempotent", first=state1, second=_dag_state(r2.graph, tag), second_reports=[sorted(map(str, r2.widows)), sorted(map(str, r2.unidirectional_latents)), sorted(map(str, r2.redundant))])
    # projection
    obs, di, bi = projection(nodes, edges, latents)
    try:
        admg = NxMixedGraph.from_latent_variable_dag(g1, tag=tag)
    except Exception as e:
        return fail("from_latent_variable_dag-raised-on-simplified-dag", exc=repr(e)[:300])
    got = _graph_sets(admg)
    if got != (set(obs), di, bi):
        return fail("simplified-admg-differs-from-latent-projection", got=[sorted(got[0]), sorted(got[1]), sorted(map(sorted, got[2]))], want=[sorted(obs), sorted(di), sorted(map(sorted, bi))])
    # consequences: separation in the ORIGINAL dag vs y0 on the simplified ADMG
    full = nx.DiGraph()
    full.add_nodes_from(nodes)
    full.add_edges_from(map(tuple, edges))
    rng = SplitMix(case["pick"])
    obs_sorted = sorted(obs)
    for a, b in itt.combinations(obs_sorted, 2):
        rest = [x for x in obs_sorted if x not in (a, b)]
        conds = [()] + [tuple(x for x in rest if rng.below(2)) for _ in range(3)]
        for c in conds:
            want = dsep_bayesball(full, a, b, c)
            try:
                j = bool(are_d_separated(admg, V(a), V(b), conditions=[V(x) for x in c]))
            except Exception as e:
                return fail("are_d_separated-raised-on-simplified-admg", exc=repr(e)[:300])
            if j != want:
                return fail("separation-changed-by-simplification", query=[a, b, list(c)], original_dag_separated=want, simplified_admg_separated=j)
    # identifiability verdict on a sampled query
    if len(obs_sorted) >= 2:
        perm = rng.shuffle(obs_sorted)
        xs, ys = [perm[0]], [perm[1]]
        want = identifiable(obs, [list(e) for e in di], [sorted(e) for e in bi], xs, ys)
        try:
            est = identify_outcomes(admg, {V(xs[0])}, {V(ys[0])})
        except Exception as e:
            return fail("identify_outcomes-raised-on-simplified-admg", exc=repr(e)[:300])
        if (est is not None) != want:
            return fail("identifiability-verdict-changed", X=xs, Y=ys, projection_identifiable=want, simplified_identifiable=est is not None)
    # the consumer named in the property's anchors (taheri_design._get_result): every latent configuration enumerated
    # over this DAG -- given WITH its existing latent tags -- must come back with the projection onto its own observed set
    if len(nodes) <= 6 and len(obs_sorted) >= 2 and case["pick"] % 2 == 0:
        from y0.algorithm.taheri_design import taheri_design_dag

        perm = rng.shuffle(obs_sorted)
        cause, effect = perm[0], perm[1]
        try:
            results = taheri_design_dag(fresh(), V(cause), V(effect), tag=tag)
        except Exception as e:
            return fail("taheri_design_dag-raised", exc=repr(e)[:300], cause=cause, effect=effect)
        labels.add("design-results-checked")
        for r in results:
            lat = {n.name for n in r.latents}
            seen_obs = {n.name for n in r.observed} | {cause, effect}
            if lat & seen_obs or (lat | seen_obs) != set(nodes):
                return fail("design-result-latent/observed-lists-do-not-partition-the-nodes", latents=sorted(lat), observed=sorted(seen_obs))
            o2, d2_, b2 = projection(nodes, edges, lat)
            got = _graph_sets(r.admg)
            if got != (set(o2), d2_, b2):
                return fail("design-result-admg-differs-from-latent-projection", cause=cause, effect=effect, latents=sorted(lat), got=[sorted(got[0]), sorted(got[1]), sorted(map(sorted, got[2]))], want=[sorted(o2), sorted(d2_), sorted(map(sorted, b2))])
            want_id = identifiable(o2, [list(e) for e in d2_], [sorted(e) for e in b2], [cause], [effect])
            if bool(r.identifiable) != want_id or (r.estimand is not None) != want_id:
                return fail("design-result-verdict-differs-from-projection", cause=cause, effect=effect, latents=sorted(lat), reported=bool(r.identifiable), projection_identifiable=want_id)
    out.nontrivial = bool(r1.widows or r1.unidirectional_latents or r1.redundant or any(lat_parents[l] for l in latents))
    out.labels = sorted(labels)
    return out


LEVEL_TEXT = (
    "Generated-input search with independent oracles: round trips on ADMGs with isolated nodes; Evans simplification of "
    "random latent-variable DAGs compared with an independently computed latent projection, with idempotence, node "
    "preservation and downstream consequences (separation in the original DAG, identifiability) checked on every case. "
    "Exploration is the right level: the claim quantifies over all DAGs and latent subsets."
)
LEVEL_NOTE = "Trusts the projection oracle (from the property's definition) and Bayes-ball; DAGs bounded to 8 nodes."
TECHNIQUE = "property-based testing (Hypothesis): round-trip, idempotence and differential against a latent-projection / d-separation reference"
