"""C14 — mixed-graph surgery operations meet their set-theoretic definitions (model-based, stateful)."""

from __future__ import annotations

import itertools as itt

from hypothesis import strategies as st

from .. import gen
from ..common import Outcome, jdump
from ..ref_graph import MG, _s, lab
from ..y0util import build_graph, reinsert

ID = "C14"
RULE = (
    "Hypothesis RuleBasedStateMachine: a pool of (NxMixedGraph, set-model) pairs; rules build a mixed graph from drawn "
    "edges/insertion order (directed cycles, isolated nodes and bidirected-only nodes included), apply subgraph / "
    "remove_in_edges / remove_out_edges / remove_nodes_from / intervene / moralize to a pool member with a drawn node "
    "subset and push the result back (operations compose as inside the algorithms), and query ancestors/descendants/"
    "districts/markov pillow/blanket/disorient/pre/topological_sort/get_nodes_in_directed_paths. After every step the "
    "result's node set and both edge sets must equal the model's definition, the receiver must be unchanged and not "
    "aliased, and the same operation on an insertion-order-permuted copy must give an equal result. One case = one "
    "history. Non-trivial = history with >=1 surgery whose subset leaves some edge-bearing node untouched or whose graph "
    "has an isolated node; distinct = distinct history."
)
ASSUMPTIONS = [
    "graphs bounded to 5 base nodes, histories to 12 steps",
    "node subsets are drawn from the graph's own nodes; sources/targets of get_nodes_in_directed_paths are disjoint",
    "moralize is modelled as the augmented graph (marry every pair joined by a path whose inner nodes are all colliders); on DAGs this is the co-parent definition of the docstring",
    "topological_sort / pre are checked by validity predicates, not by one expected answer",
]
BUDGET = {
    "quick": dict(examples=300, shards=16, seconds=240, exhaustive=True, exhaustive_shards=8),
    "thorough": dict(examples=800, shards=16, seconds=1500, exhaustive=True, exhaustive_shards=16),
}
ESSENTIAL_LABELS = {t: ["op:remove_in_edges", "op:intervene", "isolated-node", "cyclic", "built-incrementally"] for t in ("quick", "thorough")}
EXHAUSTIVE_NOTE = "all mixed graphs on nodes A,B (and all on A,B,C in thorough; directed cycles allowed) x all node subsets x every surgery operation and query, as one-step histories"

SURGERY = ["subgraph", "remove_in_edges", "remove_out_edges", "remove_nodes_from"]
QUERIES = [
    "ancestors_inclusive",
    "descendants_inclusive",
    "districts",
    "get_markov_pillow",
    "get_markov_blanket",
    "disorient",
    "pre",
    "pre_ordered",
    "topological_sort",
    "get_nodes_in_directed_paths",
]


class World:
    """Interpreter of a history on the real implementation and on the set model."""

    def __init__(self):
        self.pool = []  # list of (real, model)
        self.labels = set()
        self.nontrivial = False

    def step(self, op):
        """Execute one op; return None or a failure detail dict."""
        kind = op["op"]
        if kind == "build":
            g = op["g"]
            real = build_graph(g)
            model = MG(
                [(n, frozenset()) for n in g["nodes"]],
                [((u, frozenset()), (v, frozenset())) for u, v in g["di"]],
                [((u, frozenset()), (v, frozenset())) for u, v in g["bi"]],
            )
            bad = self._compare(real, model, op, None)
            if bad:
                return bad
            real2 = build_graph(reinsert(g))
            if not (real == real2 and real2 == real):
                return {"kind": "insertion-order-equality", "op": op}
            if op.get("inc") and all(u != v for u, v in g["di"]):
                # the same graph grown with add_* calls and read-only queries in between; every later query and surgery
                # of this history runs on that object, so a stale cache inside the graph shows up against the model
                from ..y0util import build_graph_incremental

                try:
                    real3 = build_graph_incremental(g, strict_probes=True)
                except Exception as e:  # a read-only query failed on an intermediate state of a growing graph
                    return {"kind": "query-raised-during-incremental-construction", "op": op, "exc": repr(e)[:300]}
                bad = self._compare(real3, model, {**op, "how": "incremental"}, None)
                if bad:
                    return bad
                if not (real == real3 and real3 == real):
                    return {"kind": "incremental-construction-differs", "op": op}
                real = real3
                self.labels.add("built-incrementally")
            self.pool.append((real, model))
            touched = {x for e in g["di"] + g["bi"] for x in e}
            if set(g["nodes"]) - touched:
                self.labels.add("isolated-node")
            if not model.is_acyclic():
                self.labels.add("cyclic")
            if {x for e in g["bi"] for x in e} - {x for e in g["di"] for x in e}:
                self.labels.add("bidirected-only-node")
            return None
        if not self.pool:
            return None
        real, model = self.pool[op["t"] % len(self.pool)]
        nodes = sorted(model.nodes, key=_s)
        by_label = {lab(n): n for n in real.nodes()}
        if set(by_label) != set(model.nodes):
            return {"kind": "pool-out-of-sync", "op": op}

        def pick(key):
            idx = sorted({i % len(nodes) for i in op.get(key, [])}) if nodes else []
            return [nodes[i] for i in idx]

        before = MG.of(real)
        order_before = (list(real.nodes()), list(real.directed.edges()), list(real.undirected.edges()))
        twin = self._twin(real)
        self.labels.add("op:" + (op.get("q") or kind))
        failure = None
        if kind in SURGERY:
            s = pick("S")
            rs = [by_label[x] for x in s]
            try:
                # vertices is typed Variable | Iterable[Variable]: any kind of iterable (one-shot ones included), or a
                # bare singleton
                from ..y0util import as_iterable

                hk = sum(op.get("S", [])) + 3 * op.get("t", 0) + len(self.pool)
                arg = rs[0] if len(rs) == 1 and hk % 3 == 0 else as_iterable(rs, hk % 7)
                res = getattr(real, kind)(arg)
                res2 = getattr(twin, kind)(as_iterable([n for n in twin.nodes() if lab(n) in set(s)], (hk + 3) % 7))
            except Exception as e:
                return {"kind": "exception", "op": op, "exc": repr(e)[:300], "graph": model.describe(), "S": list(map(_s, s))}
            want = getattr(model, kind)(s)
            failure = self._compare(res, want, op, real) or self._same(res, res2, op)
            if not failure:
                self.pool.append((res, want))
            touched = {x for e in model.di for x in e} | {x for e in model.bi for x in e}
            if (touched - set(s)) or (model.nodes - touched):
                self.nontrivial = True
        elif kind == "intervene":
            if any(n[1] for n in model.nodes):  # only defined on graphs without counterfactual nodes
                return None
            from y0.dsl import Intervention

            ints = {(nodes[i % len(nodes)][0], bool(star)) for i, star in op["I"]} if nodes else set()
            names = [n for n, _ in ints]
            if len(set(names)) != len(names) or not ints:
                return None
            yints = {Intervention(name=n, star=s_) for n, s_ in ints}
            try:
                res = real.intervene(yints)
                res2 = twin.intervene(set(yints))
            except Exception as e:
                return {"kind": "exception", "op": op, "exc": repr(e)[:300], "graph": model.describe()}
            want = model.intervene(ints)
            failure = self._compare(res, want, op, real) or self._same(res, res2, op)
            if not failure:
                self.pool.append((res, want))
            self.nontrivial = True
        elif kind == "moralize":
            try:
                res = real.moralize()
                res2 = twin.moralize()
            except Exception as e:
                return {"kind": "exception", "op": op, "exc": repr(e)[:300], "graph": model.describe()}
            want = model.moralize()
            got = MG.of(res) if hasattr(res, "directed") else None
            # many outputs are valid: nodes and directed edges unchanged, bidirected edges kept, and the
            # adjacency of the result is exactly the adjacency of the augmented graph
            if got is None or got.nodes != model.nodes or got.di != model.di or not (model.bi <= got.bi):
                failure = {"kind": "wrong-result", "op": op, "got": got and got.describe(), "want": want.describe()}
            elif got.disorient_edges() != want.disorient_edges():
                failure = {"kind": "wrong-moral-adjacency", "op": op, "got": got.describe(), "want": want.describe()}
            else:
                failure = self._compare(res, got, op, real) or self._same(res, res2, op)
            if not failure:
                self.pool.append((res, got))
            if want.bi != model.bi:
                self.labels.add("moralize-added-links")
        elif kind == "query":
            failure = self._query(op, real, twin, model, pick, by_label)
        if failure:
            return failure
        after = MG.of(real)
        order_after = (list(real.nodes()), list(real.directed.edges()), list(real.undirected.edges()))
        if not after.same(before) or order_after != order_before:
            return {"kind": "receiver-modified", "op": op, "before": before.describe(), "after": after.describe()}
        return None

    @staticmethod
    def _twin(real):
        """The same graph inserted in another order."""
        from y0.graph import NxMixedGraph

        return NxMixedGraph.from_edges(
            nodes=list(reversed(list(real.nodes()))),
            directed=list(reversed(list(real.directed.edges()))),
            undirected=[(v, u) for u, v in reversed(list(real.undirected.edges()))],
        )

    @staticmethod
    def _compare(res, want, op, receiver):
        from y0.graph import NxMixedGraph

        if not isinstance(res, NxMixedGraph):
            return {"kind": "wrong-type", "op": op, "type": type(res).__name__}
        if receiver is not None and (res is receiver or res.directed is receiver.directed or res.undirected is receiver.undirected):
            return {"kind": "result-aliases-receiver", "op": op}
        got = MG.of(res)
        un = {lab(n) for n in res.undirected.nodes()}
        if not got.same(want) or un != set(got.nodes):
            return {"kind": "wrong-result", "op": op, "got": got.describe(), "want": want.describe(), "undirected_nodes": sorted(map(_s, un))}
        if any(u == v for u, v in res.directed.edges()) and not any(u == v for u, v in want.di):
            return {"kind": "self-loop", "op": op}
        return None

    @staticmethod
    def _same(res, res2, op):
        if not (res == res2 and res2 == res and MG.of(res).same(MG.of(res2))):
            return {"kind": "insertion-order-dependent", "op": op, "a": MG.of(res).describe(), "b": MG.of(res2).describe()}
        return None

    def _query(self, op, real, twin, model, pick, by_label):
        from y0.graph import get_nodes_in_directed_paths

        q = op["q"]
        s = pick("S")
        rs = {by_label[x] for x in s}
        ts = {n for n in twin.nodes() if lab(n) in set(s)}

        def fail(got, want, **kw):
            return {"kind": "wrong-answer", "op": op, "got": got, "want": want, "graph": model.describe(), "S": sorted(map(_s, s)), **kw}

        def names(xs):
            return sorted(_s(lab(x)) for x in xs)

        try:
            if q in ("ancestors_inclusive", "descendants_inclusive"):
                from ..y0util import as_iterable

                hk = sum(op.get("S", [])) + len(self.pool)
                got, got2 = getattr(real, q)(as_iterable(list(rs), hk % 7)), getattr(twin, q)(as_iterable(list(ts), (hk + 2) % 7))
                want = getattr(model, q)(s)
                if {lab(x) for x in got} != want or {lab(x) for x in got2} != want or not isinstance(got, set):
                    return fail(names(got), sorted(map(_s, want)))
                if len(s) == 1:  # the single-Variable call form
                    one = getattr(real, q)(next(iter(rs)))
                    if {lab(x) for x in one} != want:
                        return fail(names(one), sorted(map(_s, want)), form="single-variable")
            elif q == "districts":
                got, got2 = real.districts(), twin.districts()
                want = model.districts()
                conv = {frozenset(lab(x) for x in d) for d in got}
                if conv != want or {frozenset(lab(x) for x in d) for d in got2} != want or sum(len(d) for d in got) != len(model.nodes):
                    return fail(sorted(names(d) for d in got), sorted(sorted(map(_s, d)) for d in want))
                for n in real.nodes():
                    mine = frozenset(lab(x) for x in real.get_district(n))
                    theirs = next(d for d in want if lab(n) in d)
                    if mine != theirs:
                        return fail(sorted(map(_s, mine)), sorted(map(_s, theirs)), form=f"get_district({_s(lab(n))})")
            elif q == "get_markov_pillow":
                got, want = real.get_markov_pillow(list(rs)), model.markov_pillow(s)
                if {lab(x) for x in got} != want or {lab(x) for x in twin.get_markov_pillow(list(ts))} != want:
                    return fail(names(got), sorted(map(_s, want)))
            elif q == "get_markov_blanket":
                from ..y0util import as_iterable

                hk = sum(op.get("S", [])) + len(self.pool)
                got, want = real.get_markov_blanket(as_iterable(list(rs), hk % 7)), model.markov_blanket(s)
                if {lab(x) for x in got} != want or {lab(x) for x in twin.get_markov_blanket(as_iterable(list(ts), (hk + 4) % 7))} != want:
                    return fail(names(got), sorted(map(_s, want)))
            elif q == "disorient":
                got = real.disorient()
                ge = {frozenset((lab(u), lab(v))) for u, v in got.edges()}
                if {lab(n) for n in got.nodes()} != set(model.nodes) or ge != model.disorient_edges() or got.is_directed():
                    return fail(sorted(sorted(map(_s, e)) for e in ge), sorted(sorted(map(_s, e)) for e in model.disorient_edges()))
            elif q == "topological_sort":
                if not model.is_acyclic():
                    return None
                got = real.topological_sort()
                if not model.valid_topological_order([lab(x) for x in got]) or not model.valid_topological_order([lab(x) for x in twin.topological_sort()]):
                    return fail(names(got), "a valid topological order")
            elif q in ("pre", "pre_ordered"):
                if not model.is_acyclic() or not s:
                    return None
                if q == "pre":
                    got = real.pre(list(rs))
                    if not model.valid_pre([lab(x) for x in got], s) or not model.valid_pre([lab(x) for x in twin.pre(list(ts))], s):
                        return fail([_s(lab(x)) for x in got], "prefix of a topological order that stops at the first member of S")
                    if len(s) == 1 and [lab(x) for x in real.pre(next(iter(rs)))] != [lab(x) for x in got]:
                        return fail("single-variable form differs", "same")
                else:
                    order = list(reversed(list(real.directed.nodes())))  # any list: pre() must cut it at the first member of S
                    order = _kahn(model, reverse=True)
                    yorder = [by_label[x] for x in order]
                    got = real.pre(list(rs), yorder)
                    if not model.valid_pre([lab(x) for x in got], s, order):
                        return fail([_s(lab(x)) for x in got], "given order cut at the first member of S", order=[_s(x) for x in order])
            elif q == "get_nodes_in_directed_paths":
                t = [x for x in pick("S2") if x not in set(s)]
                if not s or not t:
                    return None
                rt = {by_label[x] for x in t}
                got = get_nodes_in_directed_paths(real, set(rs), set(rt))
                got2 = get_nodes_in_directed_paths(twin, set(ts), {n for n in twin.nodes() if lab(n) in set(t)})
                want = model.nodes_in_directed_paths(s, t)
                if {lab(x) for x in got} != want or {lab(x) for x in got2} != want:
                    return fail(names(got), sorted(map(_s, want)), targets=sorted(map(_s, t)))
        except Exception as e:
            return {"kind": "exception", "op": op, "exc": repr(e)[:300], "graph": model.describe(), "S": sorted(map(_s, s))}
        return None


def _kahn(model, reverse=False):
    """A deterministic valid topological order of the model (tie-break by label, optionally reversed)."""
    left = set(model.nodes)
    order = []
    while left:
        ready = sorted((n for n in left if not (model.pa({n}) & left)), key=_s, reverse=reverse)
        order.append(ready[0])
        left.discard(ready[0])
    return order


def run_history(history) -> Outcome:
    w = World()
    out = Outcome(key=jdump(history))
    for i, op in enumerate(history):
        bad = w.step(op)
        if bad:
            out.ok = False
            bad["step"] = i
            out.detail = bad
            break
    out.labels = sorted(w.labels | {"steps=%d" % min(len(history), 12)})
    out.nontrivial = w.nontrivial
    out.sample = {"history": history[:6]}
    return out


def check(case) -> Outcome:
    return run_history(case["history"])


# ---------------------------------------------------------------------------
# Hypothesis stateful machine; records the history so a failure replays without Hypothesis


def custom_shard(tier, hseed, n_examples, seconds, record, t0):
    import time

    import hypothesis
    from hypothesis import HealthCheck, Phase, settings
    from hypothesis.stateful import RuleBasedStateMachine, initialize, precondition, rule, run_state_machine_as_test

    idx = st.integers(0, 7)
    subset = st.lists(st.integers(0, 7), max_size=5)
    failure = {}

    class Surgery(RuleBasedStateMachine):
        def __init__(self):
            super().__init__()
            self.world = World()
            self.history = []
            self.dead = time.time() - t0 > seconds

        def _do(self, op):
            if self.dead:
                return
            self.history.append(op)
            bad = self.world.step(op)
            if bad:
                bad["step"] = len(self.history) - 1
                failure["case"] = {"history": list(self.history)}
                failure["detail"] = bad
                raise AssertionError(jdump(bad)[:400])

        @initialize(g=gen.admgs(1, 5, cyclic=True), inc=st.booleans())
        def init(self, g, inc):
            self._do({"op": "build", "g": g, "inc": inc})

        @rule(g=st.one_of(gen.admgs(1, 5, cyclic=True), gen.admgs(1, 5)), inc=st.booleans())
        def build(self, g, inc):
            self._do({"op": "build", "g": g, "inc": inc})

        @rule(kind=st.sampled_from(SURGERY), t=idx, s=subset)
        def surgery(self, kind, t, s):
            self._do({"op": kind, "t": t, "S": s})

        @rule(t=idx, i=st.lists(st.tuples(st.integers(0, 7), st.booleans()), min_size=1, max_size=3))
        def intervene(self, t, i):
            self._do({"op": "intervene", "t": t, "I": [list(x) for x in i]})

        @rule(t=idx)
        def moralize(self, t):
            self._do({"op": "moralize", "t": t})

        @rule(q=st.sampled_from(QUERIES), t=idx, s=subset, s2=subset)
        def query(self, q, t, s, s2):
            self._do({"op": "query", "q": q, "t": t, "S": s, "S2": s2})

        def teardown(self):
            if not self.dead and self.history:
                record({"history": self.history}, run_history_outcome(self.world, self.history))

    try:
        run_state_machine_as_test(
            hypothesis.seed(hseed)(Surgery),
            settings=settings(
                max_examples=n_examples,
                stateful_step_count=12,
                database=None,
                deadline=None,
                report_multiple_bugs=False,
                suppress_health_check=list(HealthCheck),
                phases=[Phase.generate, Phase.shrink],
            ),
        )
    except AssertionError:
        if failure:
            return failure["case"], failure["detail"]
        raise
    return None


def run_history_outcome(world, history) -> Outcome:
    return Outcome(
        ok=True,
        nontrivial=world.nontrivial,
        key=jdump(history),
        labels=sorted(world.labels | {"steps=%d" % min(len(history), 12)}),
        sample={"history": history[:6]},
    )


def strategy(tier):  # unused: the machine generates the histories (kept for interface symmetry)
    raise NotImplementedError


def exhaustive(tier):
    names = ["A", "B"] if tier == "quick" else ["A", "B", "C"]
    pairs = list(itt.combinations(names, 2))
    n = len(names)
    all_subsets = [list(c) for r in range(n + 1) for c in itt.combinations(range(n), r)]
    for dchoice in itt.product([0, 1, 2, 3], repeat=len(pairs)):
        di = []
        for (u, v), c in zip(pairs, dchoice):
            if c in (1, 3):
                di.append([u, v])
            if c in (2, 3):
                di.append([v, u])
        for bchoice in itt.product([0, 1], repeat=len(pairs)):
            bi = [[u, v] for (u, v), c in zip(pairs, bchoice) if c]
            g = {"nodes": names, "di": di, "bi": bi}
            for s in all_subsets:
                for kind in SURGERY:
                    yield {"history": [{"op": "build", "g": g}, {"op": kind, "t": 0, "S": s}]}
                for q in QUERIES:
                    if q == "get_nodes_in_directed_paths":
                        for s2 in all_subsets:
                            yield {"history": [{"op": "build", "g": g}, {"op": "query", "q": q, "t": 0, "S": s, "S2": s2}]}
                    else:
                        yield {"history": [{"op": "build", "g": g}, {"op": "query", "q": q, "t": 0, "S": s, "S2": []}]}
                if s:
                    for stars in itt.product([False, True], repeat=len(s)):
                        yield {"history": [{"op": "build", "g": g}, {"op": "intervene", "t": 0, "I": [[i, st_] for i, st_ in zip(s, stars)]}]}
            yield {"history": [{"op": "build", "g": g}, {"op": "moralize", "t": 0}]}


LEVEL_TEXT = (
    "Model-based stateful testing: generated histories of graph constructions, surgeries and queries are executed on "
    "NxMixedGraph and on an independent set-theoretic model, compared after every step (result, receiver purity, "
    "aliasing, insertion-order independence), plus the complete enumeration of one-step histories on all 2-node "
    "(thorough: 3-node) mixed graphs. Exploration over composed operations is the right level because the suite only "
    "samples single operations on graphs where every node bears an edge."
)
LEVEL_NOTE = "Trusts the set model in vf/ref_graph.py (written from the definitions in the property); graphs <=5 base nodes, histories <=12 steps."
TECHNIQUE = "Hypothesis RuleBasedStateMachine against a set-theoretic reference model + exhaustive small-scope enumeration"
