"""Exact discrete structural causal models (integer arithmetic over a common denominator).

Two kinds:

* :class:`SCM` -- observed variables with conditional tables given observed parents and exogenous latents (one latent
  per bidirected edge, or one shared latent for a clique of bidirected edges).  Positive by construction.
* :class:`FSCM` -- functional model: every observed variable is a deterministic function of its parents, its
  latents and a private noise variable; worlds (interventions) share the exogenous draw.  Forced positive:
  for every parent/latent configuration the private-noise -> value map is onto.

All parameters are derived from an integer ``mseed`` with SplitMix, so a case is reproducible from its JSON.
Probabilities are ``fractions.Fraction``; tables hold integer numerators over one common denominator.
"""

from __future__ import annotations

import itertools as itt
from fractions import Fraction

import numpy as np

from .common import SplitMix

ROW_SUM = 12  # every conditional row sums to this; weights are positive integers


def _row(rng: SplitMix, card: int, total: int = ROW_SUM) -> list[int]:
    """Positive integer weights summing to ``total`` (uniform composition via cut points)."""
    cuts = set()
    while len(cuts) < card - 1:
        cuts.add(rng.between(1, total - 1))
    cs = [0, *sorted(cuts), total]
    return [cs[i + 1] - cs[i] for i in range(card)]


def topo_order(nodes, di):
    """Deterministic topological order (lexicographic Kahn)."""
    nodes = sorted(nodes)
    pa = {n: set() for n in nodes}
    for u, v in di:
        pa[v].add(u)
    out, done = [], set()
    while len(out) < len(nodes):
        for n in nodes:
            if n not in done and pa[n] <= done:
                out.append(n)
                done.add(n)
                break
        else:
            raise ValueError("cyclic")
    return out


def latent_structure(g, rng: SplitMix, clique_mode: bool):
    """Latents realising the bidirected edges: list of (name, children).  In clique mode maximal cliques found
    greedily share one latent (the ADMG is the same); otherwise one latent per edge."""
    bi = [tuple(sorted(e)) for e in g["bi"]]
    bi = sorted(set(bi))
    lat = []
    if clique_mode and bi:
        adj = {}
        for a, b in bi:
            adj.setdefault(a, set()).add(b)
            adj.setdefault(b, set()).add(a)
        left = set(bi)
        while left:
            a, b = sorted(left)[0]
            clique = {a, b}
            for c in sorted(adj):
                if c not in clique and all(c in adj[x] for x in clique):
                    clique.add(c)
            for e in itt.combinations(sorted(clique), 2):
                left.discard(e)
            lat.append((f"L{len(lat)}", sorted(clique)))
    else:
        for a, b in bi:
            lat.append((f"L{len(lat)}", [a, b]))
    return lat


class Table:
    """Joint distribution over ``names`` as integer numerators over a common denominator."""

    def __init__(self, names, card, arr, den):
        self.names = list(names)
        self.idx = {n: i for i, n in enumerate(self.names)}
        self.card = card
        self.arr = arr
        self.den = den
        self._mc = {}

    def num(self, fix: dict) -> int:
        key = tuple(sorted(fix.items()))
        r = self._mc.get(key)
        if r is None:
            sl = [slice(None)] * len(self.names)
            for n, x in fix.items():
                sl[self.idx[n]] = x
            r = int(np.sum(self.arr[tuple(sl)]))
            self._mc[key] = r
        return r

    def prob(self, fix: dict) -> Fraction:
        return Fraction(self.num(fix), self.den)

    def cond(self, ch: dict, pa: dict) -> Fraction:
        """P(ch | pa); raises ZeroDivisionError if P(pa)=0; a name in both with different values gives 0."""
        for n, x in ch.items():
            if n in pa and pa[n] != x:
                if self.num(pa) == 0:
                    raise ZeroDivisionError("conditioning event has probability zero")
                return Fraction(0)
        if not pa:
            return self.prob(ch)
        d = self.num(pa)
        if d == 0:
            raise ZeroDivisionError("conditioning event has probability zero")
        return Fraction(self.num({**ch, **pa}), d)


def _dtype_for(nfactors: int):
    # ROW_SUM ** nfactors must fit comfortably in int64, otherwise use Python ints
    return np.int64 if ROW_SUM**nfactors < 2**62 else object


class SCM:
    """Positive discrete SCM compatible with the ADMG ``g`` (plain-name graph dict)."""

    def __init__(self, g, mseed: int, max_card: int = 2, clique_mode: bool = False, cost_cap: int = 60000):
        rng = SplitMix(mseed)
        self.g = g
        self.names = topo_order(g["nodes"], g["di"])
        self.idx = {n: i for i, n in enumerate(self.names)}
        self.lat = latent_structure(g, rng, clique_mode)
        self.card = {n: (2 if max_card == 2 else rng.between(2, max_card)) for n in self.names}
        self.lcard = {l: 2 for l, _ in self.lat}
        # keep the enumeration affordable: shrink cardinalities back to 2 until under the cap
        def cost():
            c = 1
            for n in self.names:
                c *= self.card[n]
            for l in self.lcard:
                c *= self.lcard[l]
            return c
        for n in reversed(self.names):
            if cost() <= cost_cap:
                break
            self.card[n] = 2
        self.pa = {n: sorted(u for u, v in g["di"] if v == n) for n in self.names}
        self.lpa = {n: [l for l, ch in self.lat if n in ch] for n in self.names}
        self.prior = {l: _row(rng, self.lcard[l]) for l, _ in self.lat}
        self.cpt = {}
        for n in self.names:
            self.cpt[n] = self._draw_cpt(rng, n)
        self._cache = {}

    def _draw_cpt(self, rng, n):
        shape = [self.card[p] for p in self.pa[n]] + [self.lcard[l] for l in self.lpa[n]]
        rows = int(np.prod(shape)) if shape else 1
        data = [_row(rng, self.card[n]) for _ in range(rows)]
        return np.array(data, dtype=np.int64).reshape([*shape, self.card[n]])

    def redraw(self, nodes, mseed: int) -> "SCM":
        """A copy in which exactly the mechanisms of ``nodes`` are redrawn (a source domain)."""
        import copy

        other = copy.copy(self)
        other.cpt = dict(self.cpt)
        rng = SplitMix(mseed)
        for n in self.names:
            if n in nodes:
                other.cpt[n] = other._draw_cpt(rng, n)
        other._cache = {}
        return other

    def params(self):
        return {
            "order": self.names,
            "card": self.card,
            "latents": self.lat,
            "prior": self.prior,
            "cpt": {n: self.cpt[n].tolist() for n in self.names},
            "row_sum": ROW_SUM,
        }

    def joint(self, do: dict | None = None) -> Table:
        """P(V | do(do)) over all observed variables (mass only where V_do == do)."""
        do = do or {}
        key = tuple(sorted(do.items()))
        t = self._cache.get(key)
        if t is not None:
            return t
        n = len(self.names)
        shape = [self.card[x] for x in self.names]
        nf = len(self.lat) + sum(1 for x in self.names if x not in do)
        dt = _dtype_for(nf)
        total = np.zeros(shape, dtype=dt)
        lnames = [l for l, _ in self.lat]
        for u in itt.product(*[range(self.lcard[l]) for l in lnames]):
            uv = dict(zip(lnames, u))
            arr = np.ones([1] * n, dtype=dt)
            w = 1
            for l in lnames:
                w *= self.prior[l][uv[l]]
            for x in self.names:
                bshape = [1] * n
                if x in do:
                    f = np.zeros(self.card[x], dtype=dt)
                    f[do[x]] = 1
                    bshape[self.idx[x]] = self.card[x]
                    arr = arr * f.reshape(bshape)
                    continue
                sl = self.cpt[x][(..., *[uv[l] for l in self.lpa[x]], slice(None))] if self.lpa[x] else self.cpt[x]
                # sl has axes pa(x)..., x ; move them to global positions
                axes = [self.idx[p] for p in self.pa[x]] + [self.idx[x]]
                order = np.argsort(axes)
                sl = np.transpose(sl, order).astype(dt)
                for a in axes:
                    bshape[a] = shape[a]
                arr = arr * sl.reshape(bshape)
            total = total + arr * w
        den = ROW_SUM**nf
        t = Table(self.names, self.card, total, den)
        self._cache[key] = t
        return t


class FSCM:
    """Functional SCM with explicit exogenous noise shared across worlds."""

    def __init__(self, g, mseed: int, max_card: int = 2, clique_mode: bool = False, noise_card: int = 3, cost_cap: int = 4000):
        rng = SplitMix(mseed)
        self.g = g
        self.names = topo_order(g["nodes"], g["di"])
        self.idx = {n: i for i, n in enumerate(self.names)}
        self.lat = latent_structure(g, rng, clique_mode)
        self.card = {n: (2 if max_card == 2 else rng.between(2, max_card)) for n in self.names}
        self.pa = {n: sorted(u for u, v in g["di"] if v == n) for n in self.names}
        self.lpa = {n: [l for l, ch in self.lat if n in ch] for n in self.names}
        self.exo = []  # (name, card, weights)
        for l, _ in self.lat:
            self.exo.append((l, 2, _row(rng, 2)))
        ncard = {}
        for n in self.names:
            ncard[n] = max(noise_card, self.card[n])
        # affordability: lower private-noise cardinality to the variable's own cardinality if needed
        def cost():
            c = 2 ** len(self.lat)
            for n in self.names:
                c *= ncard[n]
            return c
        for n in reversed(self.names):
            if cost() <= cost_cap:
                break
            self.card[n] = 2
            ncard[n] = 2
        for n in self.names:
            self.exo.append(("N_" + n, ncard[n], _row(rng, ncard[n])))
        self.ecard = {e[0]: e[1] for e in self.exo}
        self.f = {}
        for n in self.names:
            shape = [self.card[p] for p in self.pa[n]] + [2 for _ in self.lpa[n]] + [ncard[n]]
            rows = int(np.prod(shape[:-1])) if shape[:-1] else 1
            tab = np.zeros((rows, ncard[n]), dtype=np.int64)
            for r in range(rows):
                perm = rng.shuffle(list(range(self.card[n])))
                vals = perm + [rng.below(self.card[n]) for _ in range(ncard[n] - self.card[n])]
                tab[r] = vals
            self.f[n] = tab.reshape(shape)
        self.exo_names = [e[0] for e in self.exo]
        self.configs = []
        for vals in itt.product(*[range(e[1]) for e in self.exo]):
            w = 1
            for e, x in zip(self.exo, vals):
                w *= e[2][x]
            self.configs.append((dict(zip(self.exo_names, vals)), w))
        self.den = ROW_SUM ** len(self.exo)
        self._solve = {}
        self._tables = {}

    def params(self):
        return {
            "order": self.names,
            "card": self.card,
            "latents": self.lat,
            "exogenous": [(e[0], e[1], e[2]) for e in self.exo],
            "functions": {n: self.f[n].tolist() for n in self.names},
            "row_sum": ROW_SUM,
        }

    def derive(self, redraw_nodes, policy_nodes, mseed: int) -> "FSCM":
        """A source domain: same exogenous variables; the functions of ``redraw_nodes`` are redrawn; every node of
        ``policy_nodes`` gets a new mechanism that depends on its private noise only (a stochastic policy that cuts
        all incoming arrows, directed and bidirected)."""
        import copy

        other = copy.copy(self)
        other.f = dict(self.f)
        other.pa = dict(self.pa)
        other.lpa = dict(self.lpa)
        rng = SplitMix(mseed)
        for n in self.names:
            if n in policy_nodes:
                other.pa[n] = []
                other.lpa[n] = []
            elif n not in redraw_nodes:
                continue
            ncard = self.ecard["N_" + n]
            shape = [self.card[p] for p in other.pa[n]] + [2 for _ in other.lpa[n]] + [ncard]
            rows = int(np.prod(shape[:-1])) if shape[:-1] else 1
            tab = np.zeros((rows, ncard), dtype=np.int64)
            for r in range(rows):
                perm = rng.shuffle(list(range(self.card[n])))
                tab[r] = perm + [rng.below(self.card[n]) for _ in range(ncard - self.card[n])]
            other.f[n] = tab.reshape(shape)
        other._solve = {}
        other._tables = {}
        return other

    def solutions(self, do: dict):
        """List (aligned with self.configs) of value tuples of the observed variables in the sub-model do(do)."""
        key = tuple(sorted(do.items()))
        s = self._solve.get(key)
        if s is None:
            s = []
            for u, _w in self.configs:
                vals = {}
                for n in self.names:
                    if n in do:
                        vals[n] = do[n]
                        continue
                    ix = tuple(vals[p] for p in self.pa[n]) + tuple(u[l] for l in self.lpa[n]) + (u["N_" + n],)
                    vals[n] = int(self.f[n][ix])
                s.append(tuple(vals[n] for n in self.names))
            self._solve[key] = s
        return s

    def prob_event(self, items) -> Fraction:
        """items: iterable of (name, do-dict, value).  Joint counterfactual probability."""
        items = list(items)
        sols = [(self.solutions(do), self.idx[n], val) for n, do, val in items]
        tot = 0
        for k, (_u, w) in enumerate(self.configs):
            if all(s[k][i] == val for s, i, val in sols):
                tot += w
        return Fraction(tot, self.den)

    def joint(self, do: dict | None = None) -> Table:
        do = do or {}
        key = tuple(sorted(do.items()))
        t = self._tables.get(key)
        if t is None:
            shape = [self.card[x] for x in self.names]
            arr = np.zeros(shape, dtype=object)
            for s, (_u, w) in zip(self.solutions(do), self.configs):
                arr[s] += w
            t = Table(self.names, self.card, arr, self.den)
            self._tables[key] = t
        return t


class FreeTables:
    """'For every distribution': a family of independent arbitrary positive joint tables keyed by (population, do).

    Used where the claim does not involve a graph (canonicalisation, printing, operator laws).
    Q-factors are independent arbitrary positive functions keyed by (codomain names, domain names).
    """

    def __init__(self, names, card: dict, mseed: int):
        self.names = sorted(names)
        self.card = card
        self.mseed = mseed
        self._t = {}
        self._q = {}

    def joint(self, pop, do: dict) -> Table:
        key = (pop, tuple(sorted(do.items())))
        t = self._t.get(key)
        if t is None:
            from .common import derive_seed

            rng = SplitMix(derive_seed(self.mseed, str(key)))
            shape = [self.card[n] for n in self.names]
            size = int(np.prod(shape)) if shape else 1
            data = [rng.between(1, 9) for _ in range(size)]
            arr = np.array(data, dtype=np.int64).reshape(shape)
            t = Table(self.names, self.card, arr, int(arr.sum()))
            self._t[key] = t
        return t

    def cf(self, pop, items) -> Fraction:
        """Arbitrary positive 'joint counterfactual probability' of a multi-world term (a function of its structure
        and values only); enough for laws that do not rely on marginalisation across worlds (print/parse)."""
        key = (pop, tuple(sorted((n, tuple(sorted(do.items())), v) for n, do, v in items)))
        v = self._q.get(("cf", key))
        if v is None:
            from .common import derive_seed

            rng = SplitMix(derive_seed(self.mseed, "CF", str(key)))
            v = Fraction(rng.between(1, 9), rng.between(10, 19))
            self._q[("cf", key)] = v
        return v

    def qfactor(self, codomain: dict, domain: dict) -> Fraction:
        key = (tuple(sorted(codomain.items())), tuple(sorted(domain.items())))
        v = self._q.get(key)
        if v is None:
            from .common import derive_seed

            rng = SplitMix(derive_seed(self.mseed, "Q", str(key)))
            v = Fraction(rng.between(1, 9), rng.between(1, 9))
            self._q[key] = v
        return v
