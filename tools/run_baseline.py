#!/venv/bin/python
"""Run the repository's own suite (guard off) and compare with /root/.vp/BASELINE.json's stable_pass list."""
import json, os, subprocess, sys, tempfile, xml.etree.ElementTree as ET

def main():
    base = json.load(open("/root/.vp/BASELINE.json")) if os.path.exists("/root/.vp/BASELINE.json") else None
    with tempfile.TemporaryDirectory() as d:
        xml = os.path.join(d, "r.xml")
        env = dict(os.environ); env.pop("Y0_VERIF", None)
        repo = os.environ.get("Y0_REPO", "/repo")
        env["PYTHONPATH"] = os.path.join(repo, "src")
        subprocess.run(["/venv/bin/python", "-m", "pytest", "-ra", "-q", "-p", "no:cacheprovider", "--timeout=900",
                        "--continue-on-collection-errors", f"--junitxml={xml}"], cwd=repo, env=env,
                       stdout=subprocess.DEVNULL, stderr=subprocess.DEVNULL)
        passed = set()
        for tc in ET.parse(xml).getroot().iter("testcase"):
            if not any(ch.tag in ("failure", "error", "skipped") for ch in tc):
                passed.add(f"{tc.get('classname')}::{tc.get('name')}")
    print(f"passed: {len(passed)}")
    if base:
        missing = sorted(set(base["stable_pass"]) - passed)
        print(f"baseline stable_pass: {len(base['stable_pass'])}; missing now: {len(missing)}")
        for m in missing: print("  MISSING", m)
        return 1 if missing else 0
    return 0
sys.exit(main())
