"""C17 — Tian-Pearl c-factor identification returns the true c-factor."""

from __future__ import annotations

import itertools as itt

import networkx as nx
from hypothesis import strategies as st

from .. import gen
from ..common import Outcome, SplitMix
from ..model import SCM
from ..ref_id import G as RG
from ..sem import Evaluator, FreeVariable, MultiWorld, Undefined
from ..y0util import CallTrace, V, build_graph, graph_key, graph_sample

ID = "C17"
RULE = (
    "Generate an ADMG (2..6 nodes, random or motif-planted), pick a district T, a valid topological order (drawn among "
    "all topological sorts), a non-empty C subset of T whose induced subgraph has a single district, and two positive "
    "SCMs. (1) compute_c_factor(T, V, P(V), topo) must evaluate to P(T | do(V minus T)) at every assignment; the same for "
    "every district of the graph; the Lemma-3 marginal Q[A] of the ancestral set A = An(C) in G[T] and, from that non-atomic "
    "Q[A], the Lemma-4 c-factor of EVERY district of G[A] are checked the same way. (2) identify_district_variables(C, T, Q[T]) must return None or an expression "
    "that evaluates to P(C | do(V minus C)) at every assignment (exact Fractions, truth by truncated factorisation). A None "
    "is compared with the set-level IDENTIFY recursion as a label only. (3) When every node outside T is an unconfounded "
    "root (forced in a third of the cases), IDENTIFY is also run with Q[T] written as one atomic term, P(T | V minus T) and "
    "PP[pi1](T | V minus T): any answer must again equal Q[C]. Non-trivial = C is a proper subset of T and an "
    "answer was returned after at least one Lemma-4/Lemma-3 step; distinct = distinct (graph, T, C, topo)."
)
ASSUMPTIONS = [
    "graphs bounded to 6 nodes, cardinalities to 3, two models per case",
    "precondition of IDENTIFY respected by construction: C non-empty, C subset of T, G[C] has a single district, topo is a topological order of G",
]
BUDGET = {
    "quick": dict(examples=300, shards=16, seconds=240),
    "thorough": dict(examples=1500, shards=16, seconds=2400),
}
ESSENTIAL_LABELS = {t: ["answered-proper-subset", "fail", "lemma4", "lemma1", "lemma4-all-districts", "atomic-conditioned-proper-subset"] for t in ("quick", "thorough")}


@st.composite
def _case(draw, gs):
    g = draw(gs)
    return {
        "g": g,
        "pick": draw(st.integers(0, 2**20)),
        "mseed": draw(st.integers(0, 2**32)),
        "max_card": draw(st.sampled_from([2, 2, 3])),
        "clique": draw(st.booleans()),
        # every node outside T made an unconfounded root, so that Q[T] is also the ATOMIC conditional P(T | V minus T)
        "exo": draw(st.integers(0, 2)) == 0,
    }


def strategy(tier):
    return st.one_of(
        _case(gen.with_odd_names(gen.admgs(2, 6, bi_densities=(2, 4, 6)), 6)),
        _case(gen.admgs(3, 6, bi_densities=(3, 5, 7), di_densities=(3, 5, 7))),
        _case(gen.embedded_admgs(2)),
    )


def derive(case):
    """(T, C, topo) derived deterministically from the drawn integer ``pick`` (or given explicitly)."""
    g = case.get("_history_of") or case["g"]  # first run of a query-edit-query history: the question of the second run
    if "T" in case:
        return case["T"], case["C"], case["topo"]
    rng = SplitMix(case["pick"])
    rg = RG(g["nodes"], g["di"], g["bi"])
    districts = sorted((sorted(d) for d in rg.districts()), key=lambda d: (-len(d), d))
    # prefer large districts
    t = districts[rng.below(min(len(districts), 2))]
    subs = [list(c) for r in range(1, len(t) + 1) for c in itt.combinations(t, r) if len(rg.sub(c).districts()) == 1]
    proper = [c for c in subs if len(c) < len(t)]
    c = proper[rng.below(len(proper))] if proper and rng.below(5) else subs[rng.below(len(subs))]
    d = nx.DiGraph()
    d.add_nodes_from(sorted(g["nodes"]))
    d.add_edges_from(map(tuple, g["di"]))
    topos = list(itt.islice(nx.all_topological_sorts(d), 24))
    topo = topos[rng.below(len(topos))]
    return t, c, topo


def _compare(expr, scm, target):
    ev = Evaluator(scm.card, lambda pop, do: scm.joint(do))
    names = scm.names
    for vals in itt.product(*[range(scm.card[n]) for n in names]):
        env = dict(zip(names, vals))
        truth = scm.joint({n: env[n] for n in names if n not in target}).prob({n: env[n] for n in target})
        try:
            got = ev.ev(expr, env)
        except (Undefined, FreeVariable, MultiWorld) as e:
            return {"kind": "expression-not-evaluable:" + type(e).__name__, "why": str(e), "assignment": env}
        if got != truth:
            return {"kind": "wrong-value", "assignment": env, "value": str(got), "truth": str(truth)}
    return None


def check(case) -> Outcome:
    from y0.algorithm import tian_id
    from y0.dsl import Expression, P

    g = case["g"]
    t, c, topo = derive(case)
    if case.get("exo"):
        g = {"nodes": g["nodes"], "di": [e for e in g["di"] if e[1] in t], "bi": [e for e in g["bi"] if e[0] in t and e[1] in t]}
    graph = build_graph(g)
    out = Outcome(key=f"{graph_key(g)}|T={','.join(t)}|C={','.join(c)}|topo={','.join(topo)}")
    labels = {f"n={len(g['nodes'])}", f"|T|={len(t)}"}
    outside = sorted(set(g["nodes"]) - set(t))
    atomic_ok = all(e[1] not in outside for e in g["di"]) and all(e[0] not in outside and e[1] not in outside for e in g["bi"])
    vt = [V(x) for x in topo]

    def fail(kind, **kw):
        out.ok = False
        out.detail = {"kind": kind, "graph": g, "T": t, "C": c, "topo": topo, **kw}
        out.labels = sorted(labels)
        return out

    scms = [
        SCM(g, case["mseed"], max_card=case["max_card"], clique_mode=case["clique"]),
        SCM(g, case["mseed"] + 7919, max_card=2, clique_mode=not case["clique"]),
    ]
    # (1) c-factors of every district from the joint (Lemma 1)
    rg = RG(g["nodes"], g["di"], g["bi"])
    qt = None
    for d in sorted(sorted(x) for x in rg.districts()):
        try:
            q = tian_id.compute_c_factor(district=[V(x) for x in d], subgraph_variables={V(x) for x in g["nodes"]}, subgraph_probability=P(vt), graph_topo=vt)
        except Exception as e:
            return fail("compute_c_factor-raised", district=d, exc=repr(e)[:300])
        if not isinstance(q, Expression):
            return fail("compute_c_factor-returned-non-expression", district=d)
        for k, scm in enumerate(scms):
            bad = _compare(q, scm, d)
            if bad:
                return fail("c-factor:" + bad.pop("kind"), district=d, expression=q.to_y0(), model=scm.params(), **bad)
        if d == sorted(t):
            qt = q
    # (1b) Lemma 3 + Lemma 4: Q[A] for the ancestral set A of C inside G[T], then the c-factor of EVERY district of
    #      G[A] from the (non-atomic) Q[A] -- not only the district IDENTIFY happens to recurse on
    a_set = sorted(rg.sub(t).an(c))
    try:
        q_a = tian_id.compute_ancestral_set_q_value(ancestral_set=frozenset(V(x) for x in a_set), subgraph_variables=frozenset(V(x) for x in t), subgraph_probability=qt, graph_topo=vt)
    except Exception as e:
        return fail("compute_ancestral_set_q_value-raised", exc=repr(e)[:300])
    for k, scm in enumerate(scms):
        bad = _compare(q_a, scm, a_set)
        if bad:
            return fail("lemma3:" + bad.pop("kind"), ancestral_set=a_set, expression=q_a.to_y0()[:1500], model=scm.params(), **bad)
    sub_districts = sorted(sorted(x) for x in rg.sub(a_set).districts())
    if len(sub_districts) >= 2:
        labels.add("lemma4-all-districts")
        for d in sub_districts:
            try:
                q = tian_id.compute_c_factor(district=[V(x) for x in d], subgraph_variables={V(x) for x in a_set}, subgraph_probability=q_a, graph_topo=vt)
            except Exception as e:
                return fail("compute_c_factor(lemma 4)-raised", district=d, exc=repr(e)[:300])
            for k, scm in enumerate(scms):
                bad = _compare(q, scm, d)
                if bad:
                    return fail("lemma4-c-factor:" + bad.pop("kind"), district=d, ancestral_set=a_set, expression=q.to_y0()[:1500], model=scm.params(), **bad)
    # (2) IDENTIFY
    from ..y0util import ReentryGuard, StepBudgetExceeded

    def _key(**k):
        return (tuple(sorted(v.name for v in k["input_variables"])), tuple(sorted(v.name for v in k["input_district"])))

    with ReentryGuard(tian_id, "identify_district_variables", _key), CallTrace(tian_id, ["compute_c_factor_marginalizing_over_topological_successors", "compute_c_factor_conditioning_on_topological_predecessors", "compute_ancestral_set_q_value"]) as tr:
        try:
            r = tian_id.identify_district_variables(input_variables=frozenset(V(x) for x in c), input_district=frozenset(V(x) for x in t), district_probability=qt, graph=graph, topo=vt)
        except StepBudgetExceeded as e:
            return fail("identify_district_variables-does-not-terminate", exc=str(e))
        except Exception as e:
            return fail("identify_district_variables-raised", exc=repr(e)[:300])
    if "compute_c_factor_marginalizing_over_topological_successors" in tr.calls:
        labels.add("lemma4")
    if "compute_ancestral_set_q_value" in tr.calls:
        labels.add("lemma3")
    labels.add("lemma1")
    # reference verdict of IDENTIFY(C, T)
    tt = frozenset(t)
    cc = frozenset(c)
    while True:
        a = rg.sub(tt).an(cc)
        if a == cc:
            ref = True
            break
        if a == tt:
            ref = False
            break
        tt = rg.sub(a).district_of(cc)
    # (2b) the same question with Q[T] supplied as one atomic (population) probability term
    if atomic_ok:
        for tag, q_atomic in _atomic_forms(t, outside):
            labels.add("atomic-Q[T]:" + tag + ("-conditioned" if outside else ""))
            try:
                with ReentryGuard(tian_id, "identify_district_variables", _key):
                    r2 = tian_id.identify_district_variables(input_variables=frozenset(V(x) for x in c), input_district=frozenset(V(x) for x in t), district_probability=q_atomic, graph=graph, topo=vt)
            except StepBudgetExceeded as e:
                return fail("identify_district_variables-does-not-terminate", q_t=q_atomic.to_y0(), exc=str(e))
            except Exception as e:
                return fail("identify_district_variables-raised", q_t=q_atomic.to_y0(), exc=repr(e)[:300])
            if (r2 is None) != (r is None):
                labels.add("verdict-depends-on-how-Q[T]-is-written(label only)")
            if r2 is None:
                continue
            if not isinstance(r2, Expression):
                return fail("non-expression-returned", q_t=q_atomic.to_y0(), type=str(type(r2)))
            for k, scm in enumerate(scms):
                bad = _compare(r2, scm, c)
                if bad:
                    return fail("identify(atomic Q[T]):" + bad.pop("kind"), q_t=q_atomic.to_y0(), expression=r2.to_y0()[:2000], model=scm.params(), **bad)
            if outside and 0 < len(c) < len(t):
                labels.add("atomic-conditioned-proper-subset")
    # (2c) the same question with Q[T] written as ONE fraction: every Lemma-1 factor P(v_i | v^(i-1)) as
    #      P(v^(i)) / P(v^(i-1)), numerators and denominators collected
    from y0.dsl import Fraction, Product

    nums, dens = [], []
    for x in t:
        i = topo.index(x)
        nums.append(P([V(n) for n in topo[: i + 1]]))
        if i:
            dens.append(P([V(n) for n in topo[:i]]))
    if dens:
        q_frac = Fraction(Product.safe(nums), Product.safe(dens))
        labels.add("fraction-Q[T]")
        try:
            with ReentryGuard(tian_id, "identify_district_variables", _key):
                r3 = tian_id.identify_district_variables(input_variables=frozenset(V(x) for x in c), input_district=frozenset(V(x) for x in t), district_probability=q_frac, graph=graph, topo=vt)
        except StepBudgetExceeded as e:
            return fail("identify_district_variables-does-not-terminate", q_t=q_frac.to_y0(), exc=str(e))
        except Exception as e:
            return fail("identify_district_variables-raised", q_t=q_frac.to_y0(), exc=repr(e)[:300])
        if r3 is not None:
            if not isinstance(r3, Expression):
                return fail("non-expression-returned", q_t=q_frac.to_y0(), type=str(type(r3)))
            for k, scm in enumerate(scms):
                bad = _compare(r3, scm, c)
                if bad:
                    return fail("identify(fraction Q[T]):" + bad.pop("kind"), q_t=q_frac.to_y0()[:800], expression=r3.to_y0()[:2000], model=scm.params(), **bad)
        try:
            q_a3 = tian_id.compute_ancestral_set_q_value(ancestral_set=frozenset(V(x) for x in a_set), subgraph_variables=frozenset(V(x) for x in t), subgraph_probability=q_frac, graph_topo=vt)
        except Exception as e:
            return fail("compute_ancestral_set_q_value-raised", q_t=q_frac.to_y0(), exc=repr(e)[:300])
        for k, scm in enumerate(scms):
            bad = _compare(q_a3, scm, a_set)
            if bad:
                return fail("lemma3(fraction Q[T]):" + bad.pop("kind"), ancestral_set=a_set, expression=q_a3.to_y0()[:1500], model=scm.params(), **bad)
    # (2d) Q[T] built by Lemma 1 under ANOTHER valid topological order than the one IDENTIFY is given: any expression
    #      for Q[T] together with any valid order is a legitimate input
    d2 = nx.DiGraph()
    d2.add_nodes_from(sorted(g["nodes"]))
    d2.add_edges_from(map(tuple, g["di"]))
    others = [o for o in itt.islice(nx.all_topological_sorts(d2), 40) if o != list(topo)]
    if others:
        topo2 = others[case["pick"] % len(others)]
        vt2 = [V(x) for x in topo2]
        labels.add("Q[T]-built-under-another-order")
        try:
            qt2 = tian_id.compute_c_factor(district=[V(x) for x in t], subgraph_variables={V(x) for x in g["nodes"]}, subgraph_probability=P(vt2), graph_topo=vt2)
            with ReentryGuard(tian_id, "identify_district_variables", _key):
                r4 = tian_id.identify_district_variables(input_variables=frozenset(V(x) for x in c), input_district=frozenset(V(x) for x in t), district_probability=qt2, graph=graph, topo=vt)
            q_a4 = tian_id.compute_ancestral_set_q_value(ancestral_set=frozenset(V(x) for x in a_set), subgraph_variables=frozenset(V(x) for x in t), subgraph_probability=qt2, graph_topo=vt)
        except StepBudgetExceeded as e:
            return fail("identify_district_variables-does-not-terminate", q_t_order=topo2, exc=str(e))
        except Exception as e:
            return fail("identify_district_variables-raised", q_t_order=topo2, exc=repr(e)[:300])
        for k, scm in enumerate(scms):
            bad = _compare(q_a4, scm, a_set)
            if bad:
                return fail("lemma3(Q[T] under another order):" + bad.pop("kind"), q_t_order=topo2, ancestral_set=a_set, expression=q_a4.to_y0()[:1500], model=scm.params(), **bad)
            if r4 is not None:
                bad = _compare(r4, scm, c)
                if bad:
                    return fail("identify(Q[T] under another order):" + bad.pop("kind"), q_t_order=topo2, expression=r4.to_y0()[:2000], model=scm.params(), **bad)
    if r is None:
        labels.add("fail")
        if ref:
            labels.add("fail-where-reference-identifies(label only)")
        out.labels = sorted(labels)
        return out
    if not isinstance(r, Expression):
        return fail("non-expression-returned", type=str(type(r)))
    if not ref:
        labels.add("answer-where-reference-fails(value still checked)")
    labels.add("answered")
    out.sample = {**graph_sample(g), "T": t, "C": c, "topo": topo, "Q[C]": r.to_y0()[:400]}
    for k, scm in enumerate(scms):
        bad = _compare(r, scm, c)
        if bad:
            return fail("identify:" + bad.pop("kind"), expression=r.to_y0()[:2000], model=scm.params(), **bad)
    if len(c) < len(t):
        labels.add("answered-proper-subset")
        out.nontrivial = True
    out.labels = sorted(labels)
    return out


def _atomic_forms(t, outside):
    """Q[T] written as ONE probability term, P(T | V minus T) -- valid when every node outside T is an unconfounded root
    (conditioning on it equals intervening on it) -- as a plain and as a population probability."""
    from y0.dsl import PP, P, Population

    ch = [V(x) for x in t]
    pa = [V(x) for x in outside]
    dist = (ch[0].joint(ch[1:]) | pa) if pa else ch[0].joint(ch[1:])
    return [("P", P(dist)), ("PP", PP[Population("pi1")](dist))]


LEVEL_TEXT = (
    "Generated-input search with a semantic oracle: c-factors and IDENTIFY results are evaluated on exact-rational SCMs at "
    "every assignment and compared with the interventional distribution P(C | do(V minus C)). Exploration is the right level "
    "for a claim over all graphs, districts, subsets, orders and models."
)
LEVEL_NOTE = "Trusts the evaluator and truncated-factorisation truth; bounded sizes; two models per case; preconditions respected by construction."
TECHNIQUE = "property-based testing (Hypothesis) with an exact-rational SCM oracle"
