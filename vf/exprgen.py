"""Hypothesis strategies for y0 expressions as JSON-able specs, and builders turning a spec into a y0 object.

Spec grammar:
    P   {"t":"P", "ch":[[name,star],...], "pa":[[name,star],...], "do":[[name,star],...], "pop": None|str}
        (all variables of one term share the subscript set "do"; names within one term are distinct)
    Q   {"t":"Q", "cod":[names], "dom":[names]}
    *   {"t":"prod", "xs":[spec, spec, ...]}          (>= 2)
    Sum {"t":"sum", "rs":[names], "x": spec}           (>= 1 range)
    /   {"t":"frac", "n": spec, "d": spec}             (denominator contains no Zero literal)
    1   {"t":"one"}      0   {"t":"zero"}

Two builders: ``build_raw`` uses the dataclass constructors (arbitrary trees), ``build_public`` only the public DSL
operators (P, PP, Q, *, /, Sum[...]) so normalising constructors are exercised the way a user reaches them.
"""

from __future__ import annotations

from hypothesis import strategies as st

NAMES = ["A", "B", "C", "D"]
POPS = ["π1", "π2"]


@st.composite
def prob_specs(draw, names=NAMES, pops=True, do=True, marks=True, cond=True, mixed_worlds=False, reflexive_do=False):
    perm = list(draw(st.permutations(names)))
    k = draw(st.integers(1, len(perm)))
    used, rest = perm[:k], perm[k:]
    nch = draw(st.integers(1, k))
    ch, pa = used[:nch], (used[nch:] if cond and draw(st.integers(0, 2)) > 0 else [])

    def mark():
        return draw(st.sampled_from([None, None, None, False, True])) if marks else None

    dos = []
    if do and rest and draw(st.integers(0, 2)) == 0:
        m = draw(st.integers(1, len(rest)))
        dos = [[n, draw(st.booleans()) if marks else False] for n in sorted(rest[:m])]
    pop = draw(st.sampled_from([None, None, None, *POPS])) if pops else None
    spec = {"t": "P", "ch": [[n, mark()] for n in ch], "pa": [[n, mark()] for n in pa], "do": dos, "pop": pop}
    if reflexive_do and draw(st.integers(0, 5)) == 0:
        # the common subscript set written member by member with '@' (not through P[...]), possibly naming one of the
        # term's own variables (X @ -X next to Y @ -X): prints as P[X](X, Y)
        spec["do_by_at"] = True
        if draw(st.booleans()):
            own = draw(st.sampled_from(ch + pa))
            spec["do"] = sorted(dos + [[own, draw(st.booleans()) if marks else False]])
    if mixed_worlds and rest and len(ch) + len(pa) >= 2 and draw(st.integers(0, 3)) == 0:
        # level-3 mixing: every variable of the term carries its own subscript set (possibly empty, possibly the same
        # names with different value marks)
        spec["do"] = []
        vdo = []
        for _ in ch + pa:
            m = draw(st.integers(0, len(rest)))
            vdo.append([[n, draw(st.booleans()) if marks else False] for n in sorted(draw(st.permutations(rest))[:m])])
        if draw(st.integers(0, 2)) == 0:
            # one variable a second time, in a different world (Y_x next to Y_x' or next to the factual Y)
            k = draw(st.integers(0, len(ch) + len(pa) - 1))
            n = (ch + pa)[k]
            other = [[m, not s_] for m, s_ in vdo[k]] if vdo[k] and draw(st.booleans()) else ([] if vdo[k] else [[rest[0], draw(st.booleans()) if marks else False]])
            if sorted(map(tuple, other)) != sorted(map(tuple, vdo[k])):
                if pa and draw(st.booleans()):
                    spec["pa"].append([n, mark()])
                    vdo.append(other)
                else:
                    spec["ch"].append([n, mark()])
                    vdo.insert(len(spec["ch"]) - 1, other)
                spec["twin"] = True
        spec["vdo"] = vdo
    return spec


def has_zero(s) -> bool:
    t = s["t"]
    if t == "zero":
        return True
    if t == "prod":
        return any(has_zero(x) for x in s["xs"])
    if t == "sum":
        return has_zero(s["x"])
    if t == "frac":
        return has_zero(s["n"]) or has_zero(s["d"])
    return False


def spec_names(s) -> set:
    t = s["t"]
    if t == "P":
        return {n for n, _ in s["ch"] + s["pa"] + s["do"]} | {n for v in s.get("vdo", []) for n, _ in v}
    if t == "Q":
        out = set()
        for v in s["cod"] + s["dom"]:
            if isinstance(v, str):
                out.add(v)
            else:
                out.add(v[0])
                out.update(m for m, _ in v[2])
        return out
    if t == "prod":
        return set().union(*[spec_names(x) for x in s["xs"]])
    if t == "sum":
        return spec_names(s["x"]) | set(s["rs"])
    if t == "frac":
        return spec_names(s["n"]) | spec_names(s["d"])
    return set()


def spec_free(s) -> set:
    t = s["t"]
    if t == "sum":
        return spec_free(s["x"]) - set(s["rs"])
    if t == "prod":
        return set().union(*[spec_free(x) for x in s["xs"]])
    if t == "frac":
        return spec_free(s["n"]) | spec_free(s["d"])
    return spec_names(s)


@st.composite
def expr_specs(draw, depth=3, names=NAMES, zero=True, one=True, q=False, nonfree_ranges=True, **kw):
    if depth <= 0 or draw(st.integers(0, 3)) == 0:
        r = draw(st.integers(0, 29))
        if one and r == 0:
            return {"t": "one"}
        if zero and r == 1 and draw(st.integers(0, 2)) == 0:
            return {"t": "zero"}
        if q and r in (2, 3):
            perm = list(draw(st.permutations(names)))
            k = draw(st.integers(1, max(1, len(perm) - 1)))
            cod = sorted(perm[:k])
            dom = sorted(perm[k : k + draw(st.integers(1, len(perm) - k))]) if len(perm) > k else sorted(perm[:1])
            spec = {"t": "Q", "cod": cod, "dom": dom}
            if kw.get("mixed_worlds") and draw(st.integers(0, 2)) == 0:
                # Q-factors over value-marked / subscripted variables
                others = [n for n in names if n not in cod and n not in dom] or list(names)

                def deco(n):
                    star = draw(st.sampled_from([None, None, False, True]))
                    subs = [[m, draw(st.booleans())] for m in sorted(draw(st.lists(st.sampled_from(others), max_size=2, unique=True))) if m != n]
                    return [n, star, subs]

                spec["cod"] = [deco(n) for n in cod]
                spec["dom"] = [deco(n) for n in dom]
            return spec
        return draw(prob_specs(names=names, **kw))
    r = draw(st.integers(0, 9))
    sub = lambda z=zero: expr_specs(depth=depth - 1, names=names, zero=z, one=one, q=q, nonfree_ranges=nonfree_ranges, **kw)  # noqa: E731
    if r < 4:
        n = draw(st.integers(2, 3))
        return {"t": "prod", "xs": [draw(sub()) for _ in range(n)]}
    if r < 7:
        body = draw(sub())
        fn = sorted(spec_free(body))
        pool = fn if (fn and not (nonfree_ranges and draw(st.integers(0, 7)) == 0)) else list(names)
        rs = draw(st.lists(st.sampled_from(pool), min_size=1, max_size=len(pool), unique=True))
        return {"t": "sum", "rs": sorted(rs), "x": body}
    return {"t": "frac", "n": draw(sub()), "d": draw(sub(False))}


# ---------------------------------------------------------------------------
# builders


def _var(name, star):
    from y0.dsl import Variable

    return Variable(name, star=star)


def _prob_vars(s):
    from y0.dsl import CounterfactualVariable, Intervention, Variable

    ints = frozenset(Intervention(n, star=bool(st_)) for n, st_ in s["do"])
    vdo = s.get("vdo")

    def mk(k, n, star):
        own = frozenset(Intervention(m, star=bool(st_)) for m, st_ in vdo[k]) if vdo else ints
        if own:
            return CounterfactualVariable(name=n, star=star, interventions=own)
        return Variable(n, star=star)

    nch = len(s["ch"])
    return tuple(mk(k, n, s_) for k, (n, s_) in enumerate(s["ch"])), tuple(mk(nch + k, n, s_) for k, (n, s_) in enumerate(s["pa"]))


def build_raw(s):
    from y0.dsl import Distribution, Fraction, One, PopulationProbability, Probability, Product, QFactor, Sum, Variable, Zero

    t = s["t"]
    if t == "P":
        ch, pa = _prob_vars(s)
        d = Distribution(children=ch, parents=pa)
        if s["pop"]:
            return PopulationProbability(population=Variable(s["pop"]), distribution=d)
        return Probability(d)
    if t == "Q":
        from y0.dsl import CounterfactualVariable, Intervention

        def qv(v):
            if isinstance(v, str):
                return Variable(v)
            n, star, subs = v
            if subs:
                return CounterfactualVariable(name=n, star=star, interventions=frozenset(Intervention(m, star=bool(x)) for m, x in subs))
            return Variable(n, star=star)

        return QFactor(domain=frozenset(qv(v) for v in s["dom"]), codomain=frozenset(qv(v) for v in s["cod"]))
    if t == "prod":
        return Product(tuple(build_raw(x) for x in s["xs"]))
    if t == "sum":
        return Sum(expression=build_raw(s["x"]), ranges=frozenset(Variable(n) for n in s["rs"]))
    if t == "frac":
        return Fraction(build_raw(s["n"]), build_raw(s["d"]))
    if t == "one":
        return One()
    if t == "zero":
        return Zero()
    raise ValueError(t)


def build_public(s):
    """Only what a user types: P(...), P[...](...), PP[pop](...), Q[...](...), *, /, Sum[...](...), One(), Zero()."""
    from y0.dsl import PP, One, P, Q, Sum, Variable, Zero

    def pv(n, star):
        v = Variable(n)
        return v if star is None else (+v if star else -v)

    t = s["t"]
    if t == "P":
        ch = [pv(n, s_) for n, s_ in s["ch"]]
        pa = [pv(n, s_) for n, s_ in s["pa"]]
        if s.get("vdo"):
            allv = ch + pa
            for k, own in enumerate(s["vdo"]):
                if own:
                    allv[k] = allv[k] @ [(+Variable(m) if st_ else -Variable(m)) for m, st_ in own]
            ch, pa = allv[: len(ch)], allv[len(ch) :]
        dist = ch[0]
        if len(ch) > 1:
            dist = dist.joint(ch[1:])
        if pa:
            dist = dist.given(pa) if len(ch) == 1 else dist | pa
        builder = PP[Variable(s["pop"])] if s["pop"] else P
        if s["do"] and s.get("do_by_at"):
            ints = [+Variable(n) if st_ else -Variable(n) for n, st_ in s["do"]]
            ch2, pa2 = [v @ ints for v in ch], [v @ ints for v in pa]
            dist = ch2[0]
            if len(ch2) > 1:
                dist = dist.joint(ch2[1:])
            if pa2:
                dist = dist.given(pa2) if len(ch2) == 1 else dist | pa2
            return builder(dist)
        if s["do"]:
            ints = [+Variable(n) if st_ else Variable(n) for n, st_ in s["do"]]
            return builder[ints](dist)
        return builder(dist)
    if t == "Q":
        def qv(v):
            if isinstance(v, str):
                return Variable(v)
            n, star, subs = v
            x = pv(n, star)
            if subs:
                x = x @ [(+Variable(m) if st_ else -Variable(m)) for m, st_ in subs]
            return x

        return Q[[qv(v) for v in s["cod"]]]([qv(v) for v in s["dom"]])
    if t == "prod":
        xs = [build_public(x) for x in s["xs"]]
        r = xs[0]
        for x in xs[1:]:
            r = r * x
        return r
    if t == "sum":
        return Sum[[Variable(n) for n in s["rs"]]](build_public(s["x"]))
    if t == "frac":
        return build_public(s["n"]) / build_public(s["d"])
    if t == "one":
        return One()
    if t == "zero":
        return Zero()
    raise ValueError(t)


def permute_presentation(s, rng):
    """A presentation permutation of a spec: shuffle factors, re-nest products, shuffle children/parents of every
    distribution.  ``rng`` is a SplitMix.  The denoted expression is the same."""
    t = s["t"]
    if t == "P":
        if s.get("vdo"):
            # children and parents are shuffled together with their own subscript sets
            nch = len(s["ch"])
            chz = rng.shuffle(list(zip(s["ch"], s["vdo"][:nch])))
            paz = rng.shuffle(list(zip(s["pa"], s["vdo"][nch:])))
            return {**s, "ch": [c for c, _ in chz], "pa": [p for p, _ in paz], "vdo": [rng.shuffle(v) for _, v in chz] + [rng.shuffle(v) for _, v in paz]}
        return {**s, "ch": rng.shuffle(s["ch"]), "pa": rng.shuffle(s["pa"]), "do": rng.shuffle(s["do"])}
    if t == "prod":
        xs = rng.shuffle([permute_presentation(x, rng) for x in s["xs"]])
        if len(xs) >= 3 and rng.below(2):
            k = rng.between(1, len(xs) - 2)
            xs = [*xs[:k], {"t": "prod", "xs": xs[k:]}]
        return {"t": "prod", "xs": xs}
    if t == "sum":
        return {"t": "sum", "rs": rng.shuffle(s["rs"]), "x": permute_presentation(s["x"], rng)}
    if t == "frac":
        return {"t": "frac", "n": permute_presentation(s["n"], rng), "d": permute_presentation(s["d"], rng)}
    return dict(s)


def flatten_spec(s):
    """Flatten nested products in a spec (used to present un-nested variants)."""
    t = s["t"]
    if t == "prod":
        xs = []
        for x in s["xs"]:
            fx = flatten_spec(x)
            if fx["t"] == "prod":
                xs.extend(fx["xs"])
            else:
                xs.append(fx)
        return {"t": "prod", "xs": xs}
    if t == "sum":
        return {**s, "x": flatten_spec(s["x"])}
    if t == "frac":
        return {"t": "frac", "n": flatten_spec(s["n"]), "d": flatten_spec(s["d"])}
    return s


def rename_spec(s, vmap, pmap):
    """The same spec over other variable / population names."""
    if isinstance(s, list):
        return [rename_spec(x, vmap, pmap) for x in s]
    if not isinstance(s, dict):
        return vmap.get(s, s) if isinstance(s, str) else s
    out = {}
    for k, v in s.items():
        if k == "t":
            out[k] = v
        elif k == "pop":
            out[k] = pmap.get(v, v) if v is not None else None
        else:
            out[k] = rename_spec(v, vmap, pmap)
    return out
