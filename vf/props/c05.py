"""C05 — surrogate-outcome / transport (TRSO) estimands equal the target effect."""

from __future__ import annotations

import importlib
import itertools as itt

from hypothesis import strategies as st

from .. import gen
from ..common import Outcome, open_regions
from ..model import SCM
from ..ref_id import G as RG
from ..ref_id import identifiable
from ..sem import Evaluator, FreeVariable, MultiWorld, Undefined, leaves
from ..y0util import CallTrace, V, build_graph, graph_key, graph_sample

ID = "C05"
POPS = ["π1", "π2", "π3"]
RULE = (
    "Generate an ADMG (2..5 nodes quick, ..6 thorough; random or motif-planted incl. Tikka & Karvanen's figure 8 shape), "
    "disjoint non-empty X, Y, and 0..3 source domains each with an experiment set Z_i and surrogate-outcome set W_i "
    "inside V (disjoint, non-empty). Build a multi-domain family: a positive target SCM and, per domain, a copy in which "
    "exactly the mechanisms of the nodes the selection diagram marks as differing -- (De(Z_i) minus W_i) union (the "
    "c-components of W_i minus An(W_i) in G with edges into Z_i removed), derived independently from the published definition "
    "-- are redrawn (two independent redraws). Call identify_target_outcomes. (a) a returned estimand evaluated with "
    "PP[pi*] = target observational joint and PP[pi_i][Z'] = domain i under do(Z') must equal P*(Y | do X) at every full "
    "assignment (exact Fractions); (b) with no domains the answer is None iff the reference says unidentifiable; (c) "
    "nothing but an Expression or None may come back. Non-trivial = estimand mentions a source population, or (no "
    "domains) the query passes lines 1-3; distinct = distinct (graph, X, Y, domains)."
)
ASSUMPTIONS = [
    "graphs bounded to 6 nodes, cardinalities to 3, two redraws of the differing mechanisms per case",
    "a source domain's declared experimental distributions are its full joint under do(Z') for Z' subset of Z_i",
    "selection diagram nodes derived independently from Tikka & Karvanen's definition (also compared with y0's, as a label)",
]
BUDGET = {
    "quick": dict(examples=500, shards=16, seconds=200),
    "thorough": dict(examples=3000, shards=16, seconds=2400),
}
ESSENTIAL_LABELS = {t: ["answered", "uses-source-domain", "no-domains", "none", "domains>=2"] for t in ("quick", "thorough")}
REGION_F17 = "trso_activation_of_conditional_term"

FIG8 = {"di": [("x1", "z"), ("z", "y1"), ("x2", "w"), ("w", "y2"), ("z", "w")], "bi": [("x1", "y1"), ("z", "y2"), ("x2", "y2")]}  # shape only


@st.composite
def _case(draw, gs):
    g = draw(gs)
    nodes = g["nodes"]
    part = draw(gen.labelled_partition(nodes, ["X", "Y"], required=["X", "Y"]))
    nd = draw(st.sampled_from([0, 1, 1, 2, 2, 3]))
    doms = []
    for k in range(nd):
        # bias: experiments on (a subset of) the target interventions, surrogate outcomes among ancestors of Y / Y itself
        zmode = draw(st.integers(0, 3))
        others = [n for n in nodes if n not in part["X"] and n not in part["Y"]]
        if zmode <= 1:
            z = draw(gen.subsets(part["X"], 1, len(part["X"])))
        elif zmode == 2 and others:
            # an experiment that overlaps the target interventions but also fixes something else
            z = sorted(set(draw(gen.subsets(part["X"], 1, len(part["X"])))) | set(draw(gen.subsets(others, 1, len(others)))))
        else:
            z = draw(gen.subsets(nodes, 1, max(1, len(nodes) - 1)))
        rest = [n for n in nodes if n not in z]
        if not rest:
            continue
        w = draw(gen.subsets(rest, 1, len(rest)))
        doms.append({"pop": POPS[k], "Z": z, "W": w})
    return {"g": g, "X": part["X"], "Y": part["Y"], "domains": doms, "mseed": draw(st.integers(0, 2**32)), "max_card": draw(st.sampled_from([2, 2, 3])), "clique": draw(st.booleans())}


def strategy(tier):
    mx = 5 if tier == "quick" else 6
    return st.one_of(
        _case(gen.with_odd_names(gen.admgs(2, mx))),
        _case(gen.with_odd_names(gen.admgs(3, mx, bi_densities=(2, 3, 5), di_densities=(3, 5, 7)))),
        _case(gen.with_odd_names(gen.embedded_admgs(2))),
    )


def nodes_to_transport(g, zs, ws):
    """(De(Z) minus W) union (C(W) minus An(W) in G with edges into Z removed)  [Tikka & Karvanen 2019, surrogate outcomes]."""
    rg = RG(g["nodes"], g["di"], g["bi"])
    zs, ws = set(zs), set(ws)
    desc = set(zs)
    ch = True
    while ch:
        ch = False
        for u, v in g["di"]:
            if u in desc and v not in desc:
                desc.add(v)
                ch = True
    comp = set()
    for d in rg.districts():
        if d & ws:
            comp |= d
    anc = rg.cut_incoming(zs).an(ws)
    return (desc - ws) | (comp - anc)


def check(case, ignore_regions=False) -> Outcome:
    from y0.dsl import Expression, PopulationProbability, Variable

    tr_mod = importlib.import_module("y0.algorithm.transport")
    g, xs, ys, doms = case["g"], case["X"], case["Y"], case["domains"]
    graph = build_graph(g)
    out = Outcome(key=graph_key(g) + f"|X={xs}|Y={ys}|" + ";".join(f"{d['pop']}:Z={d['Z']},W={d['W']}" for d in doms))
    labels = {f"n={len(g['nodes'])}", "no-domains" if not doms else ("domains>=2" if len(doms) >= 2 else "domains=1")}
    out.sample = {**graph_sample(g), "X": xs, "Y": ys, "domains": doms}

    def fail(kind, **kw):
        out.ok = False
        out.detail = {"kind": kind, "graph": g, "X": xs, "Y": ys, "domains": doms, **kw}
        out.labels = sorted(labels)
        return out

    cond_activation = []
    with CallTrace(tr_mod, ["trso", "trso_line2", "trso_line3", "trso_line4", "trso_line6", "trso_line9", "trso_line10", "activate_domain_and_interventions", "all_transports_d_separated"]) as tr:
        def on_act(a, k, r):
            e = a[0] if a else k.get("expression")
            from y0.dsl import Probability

            if isinstance(e, Probability) and e.parents:
                cond_activation.append(str(e))

        tr.observe("activate_domain_and_interventions", on_act)
        args = dict(
            target_outcomes={V(y) for y in ys},
            target_interventions={V(x) for x in xs},
            surrogate_outcomes={Variable(d["pop"]): {V(w) for w in d["W"]} for d in doms},
            surrogate_interventions={Variable(d["pop"]): {V(z) for z in d["Z"]} for d in (list(reversed(doms)) if len(doms) % 2 == 0 or sum(len(d["Z"]) for d in doms) % 2 else doms)},
        )
        try:
            est = tr_mod.identify_target_outcomes(graph, **args)
            again = tr_mod.identify_target_outcomes(graph, **args)
        except Exception as e:
            return fail("identify_target_outcomes-raised", exc=repr(e)[:300])
        if (est is None) != (again is None) or (est is not None and est != again):
            return fail("answer-changes-when-the-call-is-repeated-with-the-same-objects", first=str(est)[:400], second=str(again)[:400])
    for k in tr.calls:
        if k.startswith("trso_line") or k == "activate_domain_and_interventions":
            labels.add(k)
    if est is not None and not isinstance(est, Expression):
        return fail("non-expression-returned", type=str(type(est)))
    ref = identifiable(g["nodes"], g["di"], g["bi"], xs, ys)
    # y0's transport nodes vs the published definition (label only)
    for d in doms:
        mine = nodes_to_transport(g, d["Z"], d["W"])
        theirs = {n.name for n in tr_mod.get_nodes_to_transport(surrogate_interventions={V(z) for z in d["Z"]}, surrogate_outcomes={V(w) for w in d["W"]}, graph=graph)}
        if mine != theirs:
            labels.add("transport-nodes-differ-from-definition")
    if not doms and (est is not None) != ref:
        return fail("verdict-without-domains-differs-from-ID", trso_answered=est is not None, reference_identifiable=ref, estimand=None if est is None else est.to_y0())
    if est is None:
        labels.add("none")
        if ref:
            # no estimand means no surrogate experiment was usable, and then TRSO has to answer exactly when ID does
            return fail("no-estimand-although-identifiable-from-the-target-alone", reference_identifiable=True)
        out.labels = sorted(labels)
        return out
    if not ignore_regions and REGION_F17 in open_regions(ID) and cond_activation:
        out.excluded = REGION_F17
        return out
    labels.add("answered")
    text = est.to_y0()
    out.sample["estimand"] = text[:500]
    pops = {l.population.name for l in leaves(est) if isinstance(l, PopulationProbability)}
    if pops - {"pi*"}:
        labels.add("uses-source-domain")
    if cond_activation:
        labels.add("activation-of-conditional-term")
    # family of models
    declared = {d["pop"]: set(d["Z"]) for d in doms}
    target = SCM(g, case["mseed"], max_card=case["max_card"], clique_mode=case["clique"])
    bad = _judge(est, g, xs, ys, doms, declared, target, case, fail)
    if bad is not None:
        return bad
    # the caller's argument objects used again for ANOTHER outcome (the ordinary 'for y in outcomes' loop): the second
    # answer is judged for the interventions the caller wrote down
    rest = sorted(set(g["nodes"]) - set(xs) - set(ys))
    if rest:
        import zlib

        ys2 = [rest[zlib.crc32(out.key.encode()) % len(rest)]]
        cond2 = []
        with CallTrace(tr_mod, ["activate_domain_and_interventions"]) as tr2:
            tr2.observe("activate_domain_and_interventions", lambda a, k, r: cond2.append(1) if getattr(a[0] if a else k.get("expression"), "parents", None) else None)
            try:
                est2 = tr_mod.identify_target_outcomes(graph, **{**args, "target_outcomes": {V(y) for y in ys2}})
            except Exception as e:
                return fail("identify_target_outcomes-raised-on-a-second-question-with-the-same-argument-objects", second_outcomes=ys2, exc=repr(e)[:300])
        if est2 is not None and isinstance(est2, Expression) and not (cond2 and not ignore_regions and REGION_F17 in open_regions(ID)):
            labels.add("second-question-with-the-same-argument-objects")
            bad = _judge(est2, g, xs, ys2, doms, declared, target, case, lambda kind, **kw: fail("second-question:" + kind, second_outcomes=ys2, **kw))
            if bad is not None:
                return bad
    out.nontrivial = "uses-source-domain" in labels or (not doms and bool({"trso_line4", "trso_line9", "trso_line10"} & labels))
    out.labels = sorted(labels)
    return out


def _judge(est, g, xs, ys, doms, declared, target, case, fail):
    """None if the estimand equals the target effect P*(ys | do(xs)) on two families of models, else fail(...)."""
    text = est.to_y0()
    for redraw in range(2):
        models = {"pi*": target}
        for k, d in enumerate(doms):
            models[d["pop"]] = target.redraw(nodes_to_transport(g, d["Z"], d["W"]), case["mseed"] + 104729 * (redraw + 1) + k)

        def provider(pop, do):
            if pop is None:
                raise TypeError("plain P term in a transport estimand")
            if pop not in models:
                raise TypeError(f"undeclared population {pop}")
            # only the declared distributions exist: the target's observational joint and, per source domain,
            # experiments on subsets of its declared experimental variables
            allowed = set() if pop == "pi*" else declared[pop]
            if not set(do) <= allowed:
                raise TypeError(f"distribution not declared: {pop} under do({sorted(do)})")
            return models[pop].joint(do)

        ev = Evaluator(target.card, provider)
        names = target.names
        for vals in itt.product(*[range(target.card[n]) for n in names]):
            env = dict(zip(names, vals))
            truth = target.joint({x: env[x] for x in xs}).prob({y: env[y] for y in ys})
            try:
                got = ev.ev(est, env)
            except Undefined as e:
                return fail("estimand-undefined-on-positive-models", estimand=text, assignment=env, why=str(e))
            except (FreeVariable, MultiWorld, TypeError) as e:
                return fail("estimand-not-evaluable", estimand=text, exc=repr(e)[:200])
            if got != truth:
                return fail("wrong-value", estimand=text, assignment=env, value=str(got), truth=str(truth), target_model=target.params(), redraw=redraw, differing_nodes={d["pop"]: sorted(nodes_to_transport(g, d["Z"], d["W"])) for d in doms})
        if not doms:
            break
    return None


LEVEL_TEXT = (
    "Generated-input search with a semantic oracle: TRSO estimands are evaluated on multi-domain families of exact-rational "
    "SCMs (source domains differ from the target exactly where the independently derived selection diagram allows) and "
    "compared with the target effect at every assignment; without domains the verdict is compared with the reference ID "
    "criterion. Exploration is the right level for a claim over all graphs, queries, domain lists and model families."
)
LEVEL_NOTE = "Trusts the evaluator, truncated factorisation and the independent derivation of the differing nodes; bounded sizes; cases hitting the open call-site region of finding F17 are set aside and counted."
TECHNIQUE = "property-based testing (Hypothesis) with an exact-rational multi-domain SCM oracle"
