"""C07 — ID* estimands equal the probability of the counterfactual event."""

from __future__ import annotations

import itertools as itt
import os

from hypothesis import strategies as st

from .. import cfutil, gen
from ..common import Outcome, open_regions
from ..model import FSCM
from ..sem import Evaluator, FreeVariable, MultiWorld, Undefined
from ..y0util import CallTrace, build_graph, graph_key, graph_sample

ID = "C07"
RULE = (
    "Generate an ADMG (2..4 nodes quick, ..5 thorough), a conjunction of 1..3 counterfactual events and two functional "
    "SCMs (explicit exogenous noise shared across worlds, positive by construction). Call id_star. A returned expression is "
    "read with the event's own values for its outcome variables and literal values for subscripts (a free unmarked "
    "variable named N takes the value the event gives N, or the subscript value if N occurs only as a subscript; if the "
    "event gives N two different values any uniform choice is accepted) and must equal the joint counterfactual "
    "probability for every base assignment in every model (exact Fractions); Zero() is accepted only if that probability is "
    "0 in all drawn models; the only admissible exception is Unidentifiable. Non-trivial = an expression was returned and "
    "the event has >=2 worlds or the counterfactual graph merged nodes; distinct = distinct (graph, event)."
)
ASSUMPTIONS = [
    "graphs bounded to 5 nodes, events to 3 items, cardinality 2 (one model may use 3)",
    "reading rule of DESIGN.md section 3.3; ambiguous symbols are read leniently",
    "two functional models per case",
]
BUDGET = {
    "quick": dict(examples=500, shards=16, seconds=200),
    "thorough": dict(examples=3000, shards=16, seconds=2400),
}
ESSENTIAL_LABELS = {t: ["answered", "line6", "line9", "worlds>=2", "merged-or-relabelled", "zero", "plus-mark"] for t in ("quick", "thorough")}

REGION_F13A = "idstar_plus_value_turned_into_subscript"
REGIONS = [REGION_F13A, "bidirected_and_uncovered_ancestor", "bidirected_and_subscript_name_is_event_variable", "subscript_name_is_summed_ancestor"]


@st.composite
def _case(draw, gs, plus):
    g = draw(gs)
    items = draw(cfutil.event_items(g["nodes"], max_items=3, plus=plus, edges=g["di"]))
    if draw(st.integers(0, 39)) == 0:
        items = []  # the empty conjunction has probability 1
    return {"g": g, "event": items, "mseed": draw(st.integers(0, 2**32)), "max_card": draw(st.sampled_from([2, 2, 2, 3]))}


@st.composite
def _three_world_case(draw):
    """A confounded pair K <-> R seen in two DIFFERENT counterfactual worlds while a third item lives in a third world
    (5..6 nodes).  Every parent of K and of R is intervened on in the item's own world, so no factual or foreign copy of
    K or R survives in the counterfactual graph: the only thing that keeps K_s1 and R_s3 in one district is the
    bidirected edge between copies in different worlds."""
    names = list(draw(st.permutations(gen.NAME_POOL)))[:6]
    k, r, a, b, c, m = names
    di = [[a, k], [c, r]]
    nodes = [k, r, a, b, c]
    sa, sc = [a, draw(st.integers(0, 3)) == 0], [c, draw(st.integers(0, 3)) == 0]
    kind = draw(st.integers(0, 2))
    if kind == 0:  # third item: a node with a parent of its own, in that parent's world
        nodes.append(m)
        di.append([b, m])
        third = {"v": m, "do": [[b, draw(st.integers(0, 3)) == 0]], "val": draw(st.integers(0, 4)) == 0}
    elif kind == 1:  # third item: a child of a, in the world that sets a to the OTHER value
        di.append([a, b])
        third = {"v": b, "do": [[a, not sa[1]]], "val": draw(st.integers(0, 4)) == 0}
    else:  # third item: an unrelated root in some third world
        third = {"v": b, "do": [[draw(st.sampled_from([a, c])), True]], "val": False}
        third["do"][0][1] = not (sa if third["do"][0][0] == a else sc)[1]
    if draw(st.integers(0, 3)) == 0:
        di.append([k, r])
    if draw(st.integers(0, 3)) == 0:
        di.append([a, c] if draw(st.booleans()) else [b, c])
    g = {"nodes": list(draw(st.permutations(nodes))), "di": list(draw(st.permutations(di))), "bi": [[k, r]]}
    items = [{"v": k, "do": [sa], "val": draw(st.integers(0, 4)) == 0}, third, {"v": r, "do": [sc], "val": draw(st.integers(0, 4)) == 0}]
    return {"g": g, "event": list(draw(st.permutations(items))), "mseed": draw(st.integers(0, 2**32)), "max_card": 2}


def strategy(tier):
    mx = 4 if tier == "quick" else 5
    return st.one_of(
        _three_world_case(),
        _case(gen.admgs(2, mx), True),
        _case(gen.admgs(2, mx, bi_densities=(0, 2), di_densities=(4, 6, 8)), True),
        _case(gen.with_odd_names(gen.admgs(2, mx), 6), False),
        _case(gen.admgs(2, mx, bi_densities=(0,), di_densities=(4, 6, 8)), False),
        _case(gen.admgs(2, mx, bi_densities=(3, 5), di_densities=(4, 6, 8)), False),
        _case(gen.embedded_admgs(1), False),
        _case(gen.admgs(1, 2), True),
    )


def uncovered_ancestors(g, items) -> set:
    """Names that are, for some item, an ancestor of the item's variable in the item's own mutilated graph and are
    neither a subscript of that item nor an event variable in the same world (ID* has to sum them out)."""
    out = set()
    for it in items:
        subs = {n for n, _ in it["do"]}
        if it["v"] in subs:
            continue
        pa = {}
        for u, v in g["di"]:
            if v not in subs:
                pa.setdefault(v, set()).add(u)
        anc, stack = set(), [it["v"]]
        while stack:
            x = stack.pop()
            for p in pa.get(x, ()):
                if p not in anc:
                    anc.add(p)
                    stack.append(p)
        same_world = {j["v"] for j in items if sorted(map(tuple, j["do"])) == sorted(map(tuple, it["do"]))}
        out |= {a for a in anc if a not in subs and a not in same_world}
    return out


def bucket_features(case):
    g, items = case["g"], case["event"]
    f = set(cfutil.features(g, items))
    unc = uncovered_ancestors(g, items)
    if unc:
        f.add("uncovered-ancestor")
    subnames = {n for it in items for n, _ in it["do"]}
    if unc & subnames:
        f.add("subscript-name-is-summed-ancestor")
    if any(it["v"] in {n for j in items if j is not it for n, _ in j["do"]} for it in items):
        f.add("subscript-name-is-event-variable")
    if any(it["val"] for it in items):
        f.add("plus-value")
    if any(s for it in items for _, s in it["do"]):
        f.add("plus-subscript")
    parents = {u for u, v in g["di"]}
    if any(it["val"] and it["v"] in parents for it in items):
        f.add("plus-value-on-a-parent")
    # a '+'-valued event variable that has a proper descendant among the event variables (its value then has to be
    # carried into that descendant's district as a subscript, which is where the mark is lost)
    desc = {}
    for n in g["nodes"]:
        d, stack = set(), [n]
        while stack:
            x = stack.pop()
            for u, v in g["di"]:
                if u == x and v not in d:
                    d.add(v)
                    stack.append(v)
        desc[n] = d
    ev_names = {it["v"] for it in items}
    if any(it["val"] and (desc[it["v"]] & ev_names) for it in items):
        f.add("plus-value-above-event-variable")
    if any(it["val"] and any(it["v"] == n for j in items for n, _ in j["do"]) for it in items):
        f.add("plus-value-name-is-a-subscript")
    marks_by_name = {}
    for it in items:
        for n, s_ in it["do"]:
            marks_by_name.setdefault(n, set()).add(bool(s_))
        marks_by_name.setdefault(it["v"], set()).add(bool(it["val"]))
    if any(len(v) > 1 for v in marks_by_name.values()):
        f.add("name-at-two-values")
    return {x for x in f if not x.startswith("worlds=")} | ({"multiworld"} if "worlds=1" not in f else set())


def in_region(case, broad_plus=True):
    """Input-level regions.  C07 itself decides finding F13a at the call site (broad_plus=False); C08 keeps the broad
    input region for it."""
    f = bucket_features(case)
    if "plus-mark" in f and broad_plus:
        return "event_has_plus_mark"
    if "bidirected" in f and "uncovered-ancestor" in f:
        return "bidirected_and_uncovered_ancestor"
    if "bidirected" in f and "subscript-name-is-event-variable" in f:
        return "bidirected_and_subscript_name_is_event_variable"
    if "subscript-name-is-summed-ancestor" in f:
        return "subscript_name_is_summed_ancestor"
    return None


def readings(items, env, card):
    """All uniform readings {name: value} for unbound unmarked variables."""
    cand = {}
    for it in items:
        cand.setdefault(it["v"], set()).add(cfutil.value(it["val"], it["v"], env, card))
    subs = {}
    for it in items:
        for n, s in it["do"]:
            subs.setdefault(n, set()).add(cfutil.value(s, n, env, card))
    for n, vals in subs.items():
        if n not in cand:
            cand[n] = vals
    names = sorted(cand)
    ambiguous = any(len(cand[n]) > 1 for n in names)
    for choice in itt.product(*[sorted(cand[n]) for n in names]):
        yield dict(zip(names, choice)), ambiguous


def evaluate_answer(expr, items, models, names_for_env, cf=False):
    """None if the expression, under some uniform reading, equals the truth everywhere; else detail of the first mismatch
    under the first reading."""
    first_bad = None
    # choices are per-environment functions of marks; enumerate readings by *mark choice* so they are uniform
    mark_choices = {}
    for it in items:
        mark_choices.setdefault(it["v"], set()).add(bool(it["val"]))
    sub_marks = {}
    for it in items:
        for n, s in it["do"]:
            sub_marks.setdefault(n, set()).add(bool(s))
    for n, v in sub_marks.items():
        if n not in mark_choices:
            mark_choices[n] = v
    rnames = sorted(mark_choices)
    ambiguous = any(len(mark_choices[n]) > 1 for n in rnames)
    for choice in itt.product(*[sorted(mark_choices[n]) for n in rnames]):
        marks = dict(zip(rnames, choice))
        bad = None
        for m in models:
            ev = Evaluator(m.card, lambda pop, do, m=m: m.joint(do), cf_provider=(lambda pop, its, m=m: m.prob_event(its)) if cf else None)
            for vals in itt.product(*[range(m.card[n]) for n in names_for_env]):
                env = dict(zip(names_for_env, vals))
                t = cfutil.truth(m, items, env)
                ev.set_reading({n: cfutil.value(marks[n], n, env, m.card) for n in rnames})
                try:
                    got = ev.ev(expr, env)
                except Undefined as e:
                    got = f"undefined({e})"
                except FreeVariable as e:
                    bad = {"kind": "free-variable", "name": str(e)}
                    break
                except MultiWorld as e:
                    bad = {"kind": "multi-world-term", "term": str(e)}
                    break
                if got != t:
                    bad = {"kind": "wrong-value", "assignment": env, "value": str(got), "truth": str(t), "model": m.params()}
                    break
            if bad:
                break
        if bad is None:
            return None, ambiguous
        if first_bad is None:
            first_bad = bad
    return first_bad, ambiguous


def check(case, ignore_regions=False) -> Outcome:
    import importlib

    from y0.algorithm.identify import Unidentifiable
    from y0.dsl import Expression, Zero

    ids = importlib.import_module("y0.algorithm.identify.id_star")  # the package attribute of that name is the function
    id_star = ids.id_star

    g, items = case["g"], case["event"]
    out = Outcome(key=graph_key(g) + "|" + cfutil.show(items))
    labels = set(cfutil.features(g, items))
    if not ignore_regions:
        r = in_region(case, broad_plus=False)
        if r and (r in open_regions(ID) or os.environ.get("VF_C07_ALL_REGIONS")):
            out.excluded = r
            return out
    graph = build_graph(g)
    event = cfutil.build_event(items)
    out.sample = {**graph_sample(g), "event": cfutil.show(items)}

    def fail(kind, **kw):
        out.ok = False
        out.detail = {"kind": kind, "graph": g, "event": items, "event_text": cfutil.show(items), **kw}
        out.labels = sorted(labels)
        return out

    relabelled = []
    plus_lost = []

    def on_district(a, k, r):
        # F13a call-site predicate: a Markov-pillow node whose event value is '+' is turned into a '-' subscript
        cg_, district_, ev_ = a[0], a[1], a[2]
        try:
            for node in cg_.get_markov_pillow(district_):
                val = ev_.get(node)
                if val is not None and val.star:
                    plus_lost.append(str(node))
                # a self-intervened pillow node X@+x stands for the value x'; as a subscript it becomes '-x' too
                for i in getattr(node, "interventions", ()):
                    if i.name == node.name and i.star:
                        plus_lost.append(str(node))
        except Exception:
            pass

    with CallTrace(ids, ["id_star_line_6", "id_star_line_9", "make_counterfactual_graph", "get_conflicts", "get_events_of_district"]) as tr:
        tr.observe("get_events_of_district", on_district)
        tr.observe("make_counterfactual_graph", lambda a, k, r: relabelled.append(r[1] is not None and set(r[1]) != set(a[1])))
        try:
            ev_obj = dict(event)
            est = id_star(graph, ev_obj)
            try:
                again = id_star(graph, ev_obj)
            except Exception as e2:  # noqa
                again = e2
            if isinstance(again, Exception) or again != est:
                return fail("answer-changes-when-the-call-is-repeated-with-the-same-objects", first=str(est)[:400], second=repr(again)[:400])
        except Unidentifiable:
            labels.add("unidentifiable")
            out.labels = sorted(labels)
            return out
        except Exception as e:
            return fail("id_star-raised-other-than-Unidentifiable", exc=repr(e)[:300])
    if "id_star_line_6" in tr.calls:
        labels.add("line6")
    if "id_star_line_9" in tr.calls:
        labels.add("line9")
    if any(relabelled):
        labels.add("merged-or-relabelled")
    if any(k.startswith("unknown:") for k in tr.calls):
        labels.add("tracing-unavailable")
    if not isinstance(est, Expression):
        return fail("non-expression-returned", type=str(type(est)))
    if plus_lost:
        labels.add("plus-value-turned-into-subscript")
        if not ignore_regions and (REGION_F13A in open_regions(ID) or os.environ.get("VF_C07_ALL_REGIONS")):
            out.excluded = REGION_F13A
            return out
    labels.add("zero" if isinstance(est, Zero) else "answered")
    if "worlds=1" not in labels and "worlds=0" not in labels:
        labels.add("worlds>=2")
    out.sample["estimand"] = est.to_y0()
    models = [FSCM(g, case["mseed"] + 7919 * k, max_card=case["max_card"] if k == 0 else 2, clique_mode=bool(k)) for k in range(2)]
    names = sorted(g["nodes"])
    bad, ambiguous = evaluate_answer(est, items, models, names)
    if ambiguous:
        labels.add("ambiguous-symbol")
    if bad:
        k = bad.pop("kind")
        if isinstance(est, Zero):
            k = "zero-returned-for-event-with-positive-probability"
        return fail(k, estimand=est.to_y0(), **bad)
    out.nontrivial = "answered" in labels and ("worlds>=2" in labels or "merged-or-relabelled" in labels)
    out.labels = sorted(labels)
    return out


LEVEL_TEXT = (
    "Generated-input search with a semantic oracle: ID* answers are evaluated on functional SCMs with shared exogenous noise "
    "and compared exactly with the joint counterfactual probability at every base assignment. Exploration is the right "
    "level for a claim over all graphs, events and models; several root causes found on the pinned tree are recorded as known "
    "findings and their input regions are excluded by construction so the search continues behind them."
)
LEVEL_NOTE = "Trusts the functional-model enumeration and the reading rule (DESIGN.md 3.3); bounded sizes; inputs inside open known-finding regions are set aside and counted."
TECHNIQUE = "property-based testing (Hypothesis) with an exact functional-SCM oracle (multi-world enumeration)"
