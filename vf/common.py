"""Shared runner: sharding, seeds, evidence, replay files, known findings.

Every property module ``vf.props.cXX`` exposes

    ID            "C04"
    RULE          text: how cases are generated and what makes one non-trivial
    ASSUMPTIONS   list[str]
    BUDGET        {"quick": dict(examples=..., shards=..., seconds=...), "thorough": {...}}
    strategy(tier)        -> hypothesis strategy of JSON-able case dicts
    check(case)           -> Outcome  (pure function of the case and the tree)
    exhaustive(tier)      -> optional iterable of case dicts enumerated completely
    selfcheck()           -> optional; raises HarnessError when an oracle is broken
    ESSENTIAL_LABELS      optional {tier: [labels that must be hit at least once]}

A run is a pure function of the tree and VERIF_SEED.
"""

from __future__ import annotations

import hashlib
import importlib
import json
import multiprocessing as mp
import os
import sys
import time
import traceback
from collections import Counter
from dataclasses import dataclass, field
from pathlib import Path
from typing import Any

ROOT = Path(__file__).resolve().parent.parent
EVIDENCE_DIR = Path(os.environ.get("VF_EVIDENCE_DIR") or (ROOT / "evidence"))
REPLAY_DIR = ROOT / "replays"
FRESH_REPLAY_DIR = EVIDENCE_DIR / "replays"
KNOWN_FINDINGS = ROOT / "known_findings.json"
REPO_SRC = Path(os.environ.get("Y0_REPO", "/repo")) / "src"


class HarnessError(Exception):
    """The machinery itself is broken (exit 2, never a violation)."""


class Violation(Exception):
    """Raised inside a Hypothesis test body when the oracle disagrees."""


class ExampleTimeout(BaseException):
    """One generated case ran into the per-example wall-clock guard (inconclusive, never a violation).

    Derives from BaseException so that ``except Exception`` inside the code under test cannot swallow it."""


EXAMPLE_TIMEOUT_S = int(os.environ.get("VF_EXAMPLE_TIMEOUT", "60"))
WORKER_MEM_BYTES = int(os.environ.get("VF_WORKER_MEM_GB", "3")) * 2**30


def _on_alarm(signum, frame):
    # re-arm first: if the exception lands in a context that swallows it (a gc callback, a __del__), it fires again
    import signal

    signal.alarm(1)
    raise ExampleTimeout()


def guarded(fn, case):
    """Run fn(case) under the per-example guard; returns an Outcome (labelled inconclusive on timeout)."""
    import signal

    signal.signal(signal.SIGALRM, _on_alarm)
    signal.alarm(EXAMPLE_TIMEOUT_S)
    try:
        out = fn(case)
        signal.alarm(0)
        if not out.ok and "MemoryError" in str(out.detail.get("exc", "")):
            # the per-worker address-space cap was hit: machine-dependent, so inconclusive rather than a violation
            return Outcome(ok=True, labels=["memory-limit(inconclusive)"])
        return out
    except ExampleTimeout:
        signal.alarm(0)
        return Outcome(ok=True, labels=["example-timeout(inconclusive)"])
    except MemoryError:
        signal.alarm(0)
        return Outcome(ok=True, labels=["memory-limit(inconclusive)"])
    finally:
        signal.alarm(0)


def run_check(mod, case, **kw):
    """mod.check(case).  For a deterministic quarter of the cases that carry a graph, the check is first run on the same
    case with some of the graph's edges missing (result and exceptions ignored); the y0 graph object of that first run is
    then EDITED into the case's graph with add_directed_edge / add_undirected_edge and handed to the real check.  A user
    who asks, edits the graph and asks again must get the answer for the edited graph, so the verdict of the second
    run is judged exactly like that of a fresh run."""
    from . import y0util

    if getattr(mod, "NO_HISTORY", False):
        return mod.check(case, **kw)
    plan = y0util.history_plan(case)
    if plan is None:
        return mod.check(case, **kw)
    g0, g = plan
    case0 = dict(case)
    case0["g"] = g0
    case0["_history_of"] = g  # a check may derive its other arguments from the final graph, so that both runs ask the same question
    y0util.carry_begin(g0, g)
    try:
        try:
            mod.check(case0, **kw)
        except (ExampleTimeout, MemoryError, KeyboardInterrupt):
            raise
        except Exception:
            pass
        y0util.carry_second_stage()
        out = mod.check(case, **kw)
        if y0util._CARRY["used"]:
            out.labels = sorted(set(out.labels) | {"history:query-edit-query"})
        return out
    finally:
        y0util.carry_end()


@dataclass
class Outcome:
    ok: bool = True
    nontrivial: bool = False
    key: str = ""  # structural key used for distinct counting
    labels: list[str] = field(default_factory=list)
    excluded: str | None = None  # name of an open known-finding region that set this case aside
    detail: dict[str, Any] = field(default_factory=dict)  # what failed / what was compared
    sample: Any = None  # a readable rendering of the case for evidence


def jdump(obj: Any) -> str:
    return json.dumps(obj, sort_keys=True, ensure_ascii=False, default=str)


def short_hash(s: str) -> str:
    return hashlib.sha1(s.encode("utf8")).hexdigest()[:16]


def derive_seed(*parts: Any) -> int:
    h = hashlib.sha256(jdump(list(parts)).encode("utf8")).digest()
    return int.from_bytes(h[:8], "big")


class SplitMix:
    """Tiny deterministic PRNG (splitmix64) so derived parameters never depend on the stdlib RNG."""

    def __init__(self, seed: int):
        self.s = seed & 0xFFFFFFFFFFFFFFFF

    def next(self) -> int:
        self.s = (self.s + 0x9E3779B97F4A7C15) & 0xFFFFFFFFFFFFFFFF
        z = self.s
        z = ((z ^ (z >> 30)) * 0xBF58476D1CE4E5B9) & 0xFFFFFFFFFFFFFFFF
        z = ((z ^ (z >> 27)) * 0x94D049BB133111EB) & 0xFFFFFFFFFFFFFFFF
        return z ^ (z >> 31)

    def below(self, n: int) -> int:
        return self.next() % n

    def between(self, lo: int, hi: int) -> int:
        return lo + self.below(hi - lo + 1)

    def shuffle(self, xs: list) -> list:
        xs = list(xs)
        for i in range(len(xs) - 1, 0, -1):
            j = self.below(i + 1)
            xs[i], xs[j] = xs[j], xs[i]
        return xs


# ---------------------------------------------------------------------------
# known findings


def load_known_findings(prop_id: str) -> list[dict]:
    if not KNOWN_FINDINGS.exists():
        return []
    data = json.loads(KNOWN_FINDINGS.read_text())
    return [e for e in data.get("findings", []) if e.get("property") == prop_id]


def open_regions(prop_id: str) -> set[str]:
    regions = set()
    for e in load_known_findings(prop_id):
        if e.get("status") == "open":
            for r in e.get("regions", []):
                regions.add(r)
    return regions


# ---------------------------------------------------------------------------
# shard worker


def _import_prop(prop_id: str):
    return importlib.import_module(f"vf.props.{prop_id.lower()}")


def _shard(args):
    prop_id, tier, seed, shard_idx, n_examples, seconds, mode = args
    sys.setrecursionlimit(10000)
    try:
        import resource

        resource.setrlimit(resource.RLIMIT_AS, (WORKER_MEM_BYTES, WORKER_MEM_BYTES))
    except Exception:
        pass
    stats = {
        "evaluations": 0,
        "keys": set(),
        "labels": Counter(),
        "excluded": Counter(),
        "samples": [],
        "failure": None,
        "budget_exhausted": False,
        "error": None,
    }
    try:
        mod = _import_prop(prop_id)
        t0 = time.time()

        def record(case, out: Outcome):
            stats["evaluations"] += 1
            for lab in out.labels:
                stats["labels"][lab] += 1
            if out.excluded:
                stats["excluded"][out.excluded] += 1
            if out.nontrivial and not out.excluded:
                stats["keys"].add(short_hash(out.key or jdump(case)))
                if len(stats["samples"]) < 3 and out.sample is not None and (stats["evaluations"] > 25 or mode == "exhaustive"):
                    stats["samples"].append(out.sample)

        if mode == "exhaustive":
            cases = mod.exhaustive(tier)
            for i, case in enumerate(cases):
                if i % n_examples != shard_idx:  # n_examples doubles as #shards here
                    continue
                out = guarded(lambda c: run_check(mod, c), case)
                record(case, out)
                if not out.ok and not out.excluded:
                    stats["failure"] = (case, out.detail)
                    break
            return _ship(stats)

        if hasattr(mod, "custom_shard"):
            res = mod.custom_shard(
                tier, derive_seed(seed, prop_id, tier, shard_idx), n_examples, seconds, record, t0
            )
            if res is not None:
                stats["failure"] = res
            if time.time() - t0 > seconds:
                stats["budget_exhausted"] = True
            return _ship(stats)

        import hypothesis
        from hypothesis import HealthCheck, Phase, given, settings

        shrink_seconds = 25 if tier == "quick" else 150
        failing: set[str] = set()

        @hypothesis.seed(derive_seed(seed, prop_id, tier, shard_idx))
        @settings(
            max_examples=n_examples,
            database=None,
            deadline=None,
            derandomize=False,
            report_multiple_bugs=False,
            suppress_health_check=list(HealthCheck),
            phases=[Phase.generate, Phase.shrink],
        )
        @given(mod.strategy(tier))
        def body(case):
            now = time.time()
            msg = None
            ckey = jdump(case)
            if ckey in failing:
                msg = "replay"  # a case already seen failing (e.g. the final replay of the minimal one): stay consistent
            elif stats["failure"] is None and now - t0 > seconds:
                stats["budget_exhausted"] = True
            elif stats["failure"] is not None and now - stats["t_fail"] > shrink_seconds:
                pass  # bounded shrinking: every further candidate passes, so the shrinker runs dry quickly
            else:
                out = guarded(lambda c: run_check(mod, c), case)
                record(case, out)
                if not out.ok and not out.excluded:
                    stats["failure"] = (case, out.detail)
                    stats.setdefault("t_fail", now)
                    failing.add(ckey)
                    msg = "violation"
            if msg is not None:
                raise Violation(msg)

        try:
            body()
        except Violation:
            pass
        except hypothesis.errors.Flaky as e:  # pragma: no cover
            # Hypothesis saw a case fail once and pass when it ran it again (a timeout or memory guard that fired under
            # load, state carried between cases).  Not a verdict: the parent re-runs the recorded case and decides.
            stats["flaky"] = repr(e)[:600]
    except Exception:
        stats["error"] = traceback.format_exc()[-3000:]
    return _ship(stats)


def _ship(stats):
    stats.pop("t_fail", None)
    stats["keys"] = sorted(stats["keys"])
    stats["labels"] = dict(stats["labels"])
    stats["excluded"] = dict(stats["excluded"])
    return stats


# ---------------------------------------------------------------------------
# driver


def write_replay(prop_id: str, case: Any, detail: Any, directory: Path = FRESH_REPLAY_DIR) -> Path:
    directory.mkdir(parents=True, exist_ok=True)
    body = {"property": prop_id, "case": case, "detail": detail}
    name = f"{prop_id}_{short_hash(jdump(case))}.json"
    path = directory / name
    path.write_text(json.dumps(body, indent=1, sort_keys=True, ensure_ascii=False, default=str))
    return path


def run_replay(prop_id: str, path: str) -> int:
    mod = _import_prop(prop_id)
    body = json.loads(Path(path).read_text())
    if isinstance(body.get("case"), dict) and body["case"].get("post_run"):
        pdetail, _ = mod.post_run(body["case"]["tier"], body["case"]["seed"])
        if pdetail is None:
            print(f"replay {path}: property holds on this case")
            return 0
        print(f"replay {path}: FAILS: {jdump(pdetail)[:1500]}")
        print(f"VIOLATION property={prop_id} replay={path}")
        return 1
    out = run_check(mod, body["case"])
    if out.excluded:
        print(f"replay {path}: case lies in open known-finding region {out.excluded}; detail={jdump(out.detail)[:400]}")
        return 0
    if out.ok:
        print(f"replay {path}: property holds on this case")
        return 0
    print(f"replay {path}: FAILS: {jdump(out.detail)[:1500]}")
    print(f"VIOLATION property={prop_id} replay={path}")
    return 1


def run_property(prop_id: str, tier: str, seed: int) -> int:
    t0 = time.time()
    mod = _import_prop(prop_id)
    budget = mod.BUDGET[tier]
    violations: list[str] = []
    known_lines: list[str] = []
    replayed = []
    stale = []

    # 0. oracle self-checks
    if hasattr(mod, "selfcheck"):
        mod.selfcheck()

    # 1. pinned inputs of known findings / fixed findings
    for entry in load_known_findings(prop_id):
        pinned = entry.get("pinned")
        if not pinned:
            continue
        p = ROOT / pinned
        body = json.loads(p.read_text())
        out = run_check(mod, body["case"], ignore_regions=True) if _accepts_ignore(mod) else run_check(mod, body["case"])
        failed = not out.ok
        replayed.append({"id": entry["id"], "status": entry["status"], "still_fails": failed})
        if entry["status"] == "open":
            if failed:
                known_lines.append(f"KNOWN-FINDING: property={prop_id} {entry['id']}: {entry['what']}")
            else:
                stale.append(entry["id"])
        else:  # fixed entries suppress nothing
            if failed:
                violations.append(str(p))
                print(f"fixed finding {entry['id']} is back: {jdump(out.detail)[:800]}")
                print(f"VIOLATION property={prop_id} replay={p}")

    # 2. pinned regression replays (plain inputs that must pass)
    for p in sorted(REPLAY_DIR.glob(f"{prop_id}_reg_*.json")):
        body = json.loads(p.read_text())
        out = run_check(mod, body["case"])
        replayed.append({"id": p.name, "status": "regression", "still_fails": not out.ok and not out.excluded})
        if not out.ok and not out.excluded:
            violations.append(str(p))
            print(f"regression replay fails: {jdump(out.detail)[:800]}")
            print(f"VIOLATION property={prop_id} replay={p}")

    # 3. generated search
    shards = budget["shards"]
    jobs = [
        (prop_id, tier, seed, i, budget["examples"], budget["seconds"], "random") for i in range(shards)
    ]
    n_ex_shards = 0
    if hasattr(mod, "exhaustive") and budget.get("exhaustive", False):
        n_ex_shards = budget.get("exhaustive_shards", 8)
        jobs += [(prop_id, tier, seed, i, n_ex_shards, 0, "exhaustive") for i in range(n_ex_shards)]
    nproc = min(int(os.environ.get("VERIF_PROCS", "16")), len(jobs))
    ctx = mp.get_context("fork")
    with ctx.Pool(nproc) as pool:
        results = pool.map(_shard, jobs, chunksize=1)

    evaluations = 0
    keys: set[str] = set()
    labels: Counter = Counter()
    excluded: Counter = Counter()
    samples = []
    budget_exhausted = False
    exhaustive_evals = 0
    flaky_shards: list = []
    for job, res in zip(jobs, results):
        if res["error"]:
            print(f"HARNESS ERROR in shard {job[3]} ({job[6]}):\n{res['error']}", file=sys.stderr)
            return 2
        evaluations += res["evaluations"]
        if job[6] == "exhaustive":
            exhaustive_evals += res["evaluations"]
        keys.update(res["keys"])
        labels.update(res["labels"])
        excluded.update(res["excluded"])
        budget_exhausted |= res["budget_exhausted"]
        for s in res["samples"]:
            if len(samples) < 8:
                samples.append(s)
        if res.get("flaky"):
            flaky_shards.append({"shard": job[3], "what": res["flaky"][:300]})
            print(f"warning: shard {job[3]} ended with an unreliable example (failed once, passed when repeated): {res['flaky'][:300]}", file=sys.stderr)
            if res["failure"] is not None:
                again = guarded(lambda c: run_check(mod, c), res["failure"][0])
                if again.ok or again.excluded:
                    print("warning: the recorded case passes when it is run again; not reported", file=sys.stderr)
                    res["failure"] = None
        if res["failure"] is not None:
            case, detail = res["failure"]
            path = write_replay(prop_id, case, detail)
            if str(path) not in violations:
                violations.append(str(path))
                if len(violations) <= 4:
                    print(f"failure ({job[6]} shard {job[3]}): {jdump(detail)[:1500]}")
                    print(f"VIOLATION property={prop_id} replay={path}")

    extra_cov = {}
    if hasattr(mod, "post_run"):
        pdetail, extra_cov = mod.post_run(tier, seed)
        if pdetail is not None:
            path = write_replay(prop_id, {"post_run": True, "tier": tier, "seed": seed}, pdetail)
            violations.append(str(path))
            print(f"failure (post-run check): {jdump(pdetail)[:1500]}")
            print(f"VIOLATION property={prop_id} replay={path}")
    if len(violations) > 4:
        print(f"... {len(violations) - 4} further failing shards not printed (replays under {FRESH_REPLAY_DIR})")
    for line in known_lines:
        print(line)

    # essential labels (generator health): only judged when nothing failed
    missing = []
    if not violations:
        for lab in getattr(mod, "ESSENTIAL_LABELS", {}).get(tier, []):
            if labels.get(lab, 0) == 0:
                missing.append(lab)

    coverage = {
        "evaluations": evaluations,
        "distinct_nontrivial": len(keys),
        "rule": mod.RULE,
        "samples": samples if samples else ["(no non-trivial sample recorded)"],
        "labels": dict(sorted(labels.items())),
        "excluded_by_known_finding": dict(excluded),
        "known_findings_replayed": replayed,
        "stale_known_findings": stale,
        "shards": shards,
        "budget_exhausted": budget_exhausted,
        "unreliable_examples": flaky_shards,
        "exhaustive": False,
        "missing_essential_labels": missing,
        **extra_cov,
    }
    if n_ex_shards:
        coverage["exhaustive_slice"] = {
            "complete": not violations,
            "evaluations": exhaustive_evals,
            "what": getattr(mod, "EXHAUSTIVE_NOTE", ""),
        }
    evidence = {
        "property_id": prop_id,
        "tier": tier,
        "seed": seed,
        "level": "exploration",
        "coverage": coverage,
        "assumptions": list(mod.ASSUMPTIONS),
        "wall_s": round(time.time() - t0, 2),
        "violations": len(violations),
    }
    EVIDENCE_DIR.mkdir(exist_ok=True)
    (EVIDENCE_DIR / f"{prop_id}.json").write_text(
        json.dumps(evidence, indent=1, ensure_ascii=False, default=str)
    )
    print(
        f"{prop_id} {tier} seed={seed}: {evaluations} cases, {len(keys)} distinct non-trivial, "
        f"{sum(excluded.values())} set aside by known findings, {len(violations)} violations, "
        f"{evidence['wall_s']}s"
    )
    if violations:
        return 1
    if missing:
        # generator-health warning only: recorded in evidence, never an alarm and never a harness failure
        print(f"WARNING: labels the design calls essential were never hit in this run: {missing}", file=sys.stderr)
    return 0


def _accepts_ignore(mod) -> bool:
    import inspect

    return "ignore_regions" in inspect.signature(mod.check).parameters
