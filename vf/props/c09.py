"""C09 — counterfactual transport (ctfTRu / ctfTR) answers are correct."""

from __future__ import annotations

import importlib
import itertools as itt
import os

from hypothesis import strategies as st

from .. import cfutil, gen
from ..common import Outcome, open_regions
from ..model import FSCM, topo_order
from ..sem import Evaluator, FreeVariable, MultiWorld, Undefined
from ..y0util import CallTrace, V, build_graph, graph_key, graph_sample, one_or_many
from . import c19

ID = "C09"
POPS = ["π1", "π2", "π3"]
RULE = (
    "Generate a target ADMG (2..4 nodes), 1..3 domains (selection diagram = target graph with the incoming edges of the "
    "domain's policy variables removed plus T_V nodes for a drawn subset; population tag pi_k, or pi* for an unchanged "
    "copy; ordering omitted or a drawn valid topological order), an event (ctfTRu) or an (outcomes, conditions) pair "
    "(ctfTR) given through the public wrappers unconditional_cft / conditional_cft, and a compatible family of functional "
    "SCMs (each domain = target with the T-marked mechanisms redrawn and policy variables given parentless mechanisms). "
    "(a) an input that passes y0's own validation must produce a result object or None -- any exception is a "
    "violation; (b) the result expression, evaluated on the domains' distributions with the RETURNED event's values for "
    "outcome variables and literal subscripts, equals the target counterfactual (conditional) probability for every "
    "base assignment (exact); (c) Zero() only if that probability is 0 in all drawn models. Non-trivial = a district was "
    "transported from a domain that differs from the target, or >=2 ctf-factors; distinct = distinct input."
)
ASSUMPTIONS = [
    "graphs bounded to 4 nodes (thorough: 5), events to 3 items, cardinality 2; two families per case",
    "reading rule of DESIGN.md 3.3; inputs in open known-finding regions are set aside and counted",
    "a domain's distribution P^k is the observational joint of its own (policy-modified) model",
]
BUDGET = {
    "quick": dict(examples=400, shards=16, seconds=200),
    "thorough": dict(examples=3000, shards=16, seconds=2400),
}
ESSENTIAL_LABELS = {t: ["mode:unconditional", "mode:conditional", "answered", "fail", "transported-from-source", "factors>=2"] for t in ("quick", "thorough")}
REGIONS = {"reflexive": "event_has_reflexive_subscript", "plus": "event_has_plus_mark", "twice": "ctf_symbol_needed_at_two_values", "cond": "conditional_query_open_findings", "empty": "ctftr_passes_an_empty_event_to_ctftru", "final": "ctftr_final_check_keyerror"}


@st.composite
def _domains(draw, g):
    nodes = sorted(g["nodes"])
    out = []
    for k in range(draw(st.integers(1, 3))):
        kind = draw(st.sampled_from([0, 1, 2, 2, 3, 3]))
        if kind == 0 and (k > 0 or draw(st.booleans())):
            # the target's own data, possibly under a policy that leaves the diagram as it is (policy variables that are
            # unconfounded roots): tagged pi*, but a different distribution wherever the policy variable matters
            free_roots = [n for n in nodes if all(e[1] != n for e in g["di"]) and all(n not in e for e in g["bi"])]
            pol = draw(gen.subsets(free_roots, 0, len(free_roots))) if free_roots and draw(st.booleans()) else []
            out.append({"pop": "pi*", "T": [], "policy": pol, "topo": None})
            continue
        tn = draw(gen.subsets(nodes, 0, len(nodes))) if kind != 1 else []
        pol = draw(gen.subsets(nodes, 0, max(0, len(nodes) - 1))) if kind == 3 else []
        out.append({"pop": POPS[k], "T": tn, "policy": pol, "topo": draw(st.sampled_from(["none", "lex", "rev"]))})
    return out


@st.composite
def _case(draw, gs, plus, reflexive=False):
    g = draw(gs)
    mode = draw(st.sampled_from(["unconditional", "unconditional", "conditional"]))
    items = draw(cfutil.event_items(g["nodes"], max_items=3, min_items=1 if mode == "unconditional" else 2, plus=plus, reflexive=reflexive, edges=g["di"]))
    c = {"mode": mode, "g": g, "domains": draw(_domains(g)), "mseed": draw(st.integers(0, 2**32))}
    if mode == "unconditional":
        c["event"] = items
    else:
        if len(items) < 2:
            c["mode"] = "unconditional"
            c["event"] = items
        else:
            k = draw(st.integers(1, len(items) - 1))
            c["outcomes"], c["conditions"] = items[:k], items[k:]
    return c


def strategy(tier):
    mx = 4 if tier == "quick" else 5
    return st.one_of(
        _case(gen.admgs(2, mx), False),
        _case(gen.admgs(2, mx, bi_densities=(0, 2), di_densities=(4, 6, 8)), False),
        _case(gen.admgs(2, mx), True, True),
        _case(gen.embedded_admgs(0), False),
        _case(gen.embedded_admgs(1), False),
    )


def domain_graph_dict(g, d):
    pol = set(d["policy"])
    di = [e for e in g["di"] if e[1] not in pol]
    bi = [e for e in g["bi"] if not (set(e) & pol)]
    return {"nodes": list(g["nodes"]), "di": di, "bi": bi}


def build_domain(g, d):
    from y0.algorithm.counterfactual_transport import CFTDomain
    from y0.dsl import PP, TARGET_DOMAIN, Variable
    from y0.graph import NxMixedGraph

    dg = domain_graph_dict(g, d)
    # built through build_graph, so a third of the selection diagrams are graph objects grown step by step with
    # read-only queries in between (a diagram edited between two queries is an ordinary use)
    graph = build_graph({"nodes": list(dg["nodes"]) + ["T_" + n for n in d["T"]], "di": [list(e) for e in dg["di"]] + [["T_" + n, n] for n in d["T"]], "bi": [list(e) for e in dg["bi"]]})
    pop = TARGET_DOMAIN if d["pop"] == "pi*" else Variable(d["pop"])
    ordering = None
    if d["topo"] in ("lex", "rev"):
        base = topo_order(dg["nodes"], dg["di"])
        tn = ["T_" + n for n in d["T"]]
        ordering = [V(n) for n in (tn + base if d["topo"] == "lex" else sorted(tn, reverse=True) + base)]
    return CFTDomain(graph=graph, population=pop, policy_variables={V(n) for n in d["policy"]}, ordering=ordering)


def y0_vars(items):
    """Public-wrapper encoding: a list of (counterfactual) variables carrying their value as a mark."""
    from y0.dsl import Variable

    out = []
    for it in items:
        v = +Variable(it["v"]) if it["val"] else -Variable(it["v"])
        if it["do"]:
            v = v @ [(+Variable(n) if s else -Variable(n)) for n, s in it["do"]]
        out.append(v)
    return out


def bucket_features(case):
    items = case.get("event") or (case["outcomes"] + case["conditions"])
    f = {x for x in cfutil.features(case["g"], items) if not x.startswith("worlds")}
    f.add("mode:" + case["mode"])
    if c19.symbol_needed_twice(case["g"], items):
        f.add("symbol-twice")
    if c19.plus_value_propagated(case["g"], items):
        f.add("plus-value-propagated")
    if case["mode"] == "conditional" and {it["v"] for it in case["outcomes"]} & {n for it in items for n, _ in it["do"]}:
        # the normaliser sums over the outcome variables, so an outcome name that is also a fixed subscript is needed at two values
        f.add("symbol-twice")
    if case["mode"] == "conditional":
        from ..ref_id import G as RG

        rg = RG(case["g"]["nodes"], case["g"]["di"], case["g"]["bi"])
        anc = rg.an({it["v"] for it in case["conditions"]})
        if {it["v"] for it in case["outcomes"]} & anc:
            f.add("outcome-is-ancestor-of-condition")
    from .. import ref_ctf

    if any(ref_ctf.minimize(case["g"], (it["v"], frozenset((n, bool(s)) for n, s in it["do"])))[1] != frozenset((n, bool(s)) for n, s in it["do"]) for it in items):
        f.add("nonminimal-item")
    if case["mode"] == "conditional" and {it["v"] for it in case["outcomes"]} & {it["v"] for it in case["conditions"]}:
        f.add("outcome-and-condition-share-a-variable")
    if any(d["policy"] for d in case["domains"]):
        f.add("has-policy")
    if any(d["T"] for d in case["domains"]):
        f.add("has-T")
    return f


def check(case, ignore_regions=False) -> Outcome:
    api = importlib.import_module("y0.algorithm.counterfactual_transport.api")
    from y0.dsl import Expression, PopulationProbability, Zero

    g, doms, mode = case["g"], case["domains"], case["mode"]
    items = case.get("event") or (case["outcomes"] + case["conditions"])
    out = Outcome(key=f"{mode}|{graph_key(g)}|{cfutil.show(items)}|{case.get('conditions') and cfutil.show(case['conditions'])}|{doms}")
    feats = bucket_features(case)
    labels = set(feats)
    regions = set() if ignore_regions else open_regions(ID)
    if not ignore_regions:
        if REGIONS["reflexive"] in regions and "reflexive-subscript" in feats:
            out.excluded = REGIONS["reflexive"]
            return out
        if REGIONS["plus"] in regions and ("plus-value-propagated" in feats if os.environ.get("VF_C09_NARROW_PLUS", "1") == "1" else "plus-mark" in feats):
            out.excluded = REGIONS["plus"]
            return out
        if REGIONS["twice"] in regions and "symbol-twice" in feats:
            out.excluded = REGIONS["twice"]
            return out
    # duplicates of one population tag with different content are not a meaningful input
    seen = {}
    for d in doms:
        key = (tuple(d["T"]), tuple(d["policy"]))
        if seen.setdefault(d["pop"], key) != key:
            out.labels = ["duplicate-population-tag(skipped)"]
            return out
    graph = build_graph(g)
    out.sample = {**graph_sample(g), "mode": mode, "event": cfutil.show(items), "domains": doms}

    def fail(kind, **kw):
        out.ok = False
        out.detail = {"kind": kind, "mode": mode, "graph": g, "domains": doms, "event": case.get("event"), "outcomes": case.get("outcomes"), "conditions": case.get("conditions"), "text": cfutil.show(items), **kw}
        out.labels = sorted(labels)
        return out

    try:
        cdoms = [build_domain(g, d) for d in doms]
    except Exception as e:
        out.labels = ["domain-construction-failed(skipped):" + type(e).__name__]
        return out
    # does the input pass y0's own validation?
    try:
        dgs = [(d.graph, d.ordering or list(d.graph.topological_sort())) for d in cdoms]
        dd = [(d.policy_variables, d.population) for d in cdoms]
        if mode == "unconditional":
            api._validate_transport_unconditional_counterfactual_query_input(event=api._event_from_counterfactuals(y0_vars(items)), target_domain_graph=graph, domain_graphs=dgs, domain_data=dd)
        else:
            api._validate_transport_conditional_counterfactual_query_input(
                outcomes=api._event_from_counterfactuals_strict(y0_vars(case["outcomes"])),
                conditions=api._event_from_counterfactuals_strict(y0_vars(case["conditions"])),
                target_domain_graph=graph,
                domain_graphs=dgs,
                domain_data=dd,
            )
    except Exception as e:
        labels.add("rejected-by-validation:" + type(e).__name__)
        out.labels = sorted(labels)
        return out
    with CallTrace(api, ["transport_district_intervening_on_parents", "simplify"]) as tr:
        served = []
        tr.observe("transport_district_intervening_on_parents", lambda a, k, r: served.append(r))
        try:
            if mode == "unconditional":
                res = api.unconditional_cft(event=one_or_many(y0_vars(items), len(g["nodes"]) + len(cdoms), many=list), target_domain_graph=graph, domains=cdoms)
            else:
                res = api.conditional_cft(outcomes=one_or_many(y0_vars(case["outcomes"]), len(g["nodes"]) + len(cdoms), many=list), conditions=one_or_many(y0_vars(case["conditions"]), len(g["nodes"]), many=list), target_domain_graph=graph, domains=cdoms)
        except Exception as e:
            msg = repr(e)
            if mode == "conditional" and not ignore_regions:
                if REGIONS["empty"] in regions and isinstance(e, ValueError) and "empty list for the event" in msg:
                    out.excluded = REGIONS["empty"]
                    return out
                if REGIONS["final"] in regions and isinstance(e, KeyError) and "In final checks for transport_conditional_counterfactual_query" in msg:
                    out.excluded = REGIONS["final"]
                    return out
            return fail("raised-on-validated-input", exc=msg[:300])
    if res is None:
        labels.add("fail")
        out.labels = sorted(labels)
        return out
    expr, ev = res.expression, res.event
    if not isinstance(expr, Expression):
        return fail("non-expression-returned", type=str(type(expr)))
    if mode == "conditional" and not ignore_regions and REGIONS["cond"] in regions and feats & {"nonminimal-item", "plus-mark", "outcome-and-condition-share-a-variable"}:
        # F29c, narrowed after bucketing ~2500 answered conditional queries with the umbrella switched off: every wrong
        # answer had an item with a causally irrelevant subscript (Algorithm 3 looks values up by the un-minimised
        # variable and loses the outcome), a '+' value, or an outcome and a condition on one variable
        out.excluded = REGIONS["cond"]
        return out
    labels.add("zero" if isinstance(expr, Zero) else "answered")
    if len([s for s in served if s is not None]) >= 2:
        labels.add("factors>=2")
    out.sample["answer"] = expr.to_y0()[:300]
    ret_items = cfutil.pairs_from_y0(ev) if ev else []
    src_pops = {l.population.name for l in __import__("vf.sem", fromlist=["leaves"]).leaves(expr) if isinstance(l, PopulationProbability)}
    differing = {d["pop"] for d in doms if d["T"] or d["policy"]}
    if src_pops & differing:
        labels.add("transported-from-source")
    # reading: returned event's values
    marks = {}
    for it in ret_items:
        if it["val"] is not None:
            marks.setdefault(it["v"], set()).add(bool(it["val"]))
    # names that occur only as subscripts read the subscript's value: first the RETURNED event's subscripts (the
    # expression speaks about that event); a name the returned event no longer mentions falls back to the query's
    # own subscripts (all of its marks, read leniently)
    outcome_names = set(marks)
    for it in ret_items:
        for n, s in it["do"]:
            if n not in outcome_names:
                marks.setdefault(n, set()).add(bool(s))
    for it in items:
        for n, s in it["do"]:
            if n not in outcome_names and n not in {m for r in ret_items for m, _ in r["do"]}:
                marks.setdefault(n, set()).add(bool(s))
    rnames = sorted(marks)
    if any(len(v) > 1 for v in marks.values()):
        labels.add("ambiguous-symbol")
    names = sorted(g["nodes"])
    passed, first_bad = False, None
    for choice in itt.product(*[sorted(marks[n]) for n in rnames]):
        mk = dict(zip(rnames, choice))
        bad = None
        for fam in range(2):
            target = FSCM(g, case["mseed"] + 7919 * fam, max_card=2, clique_mode=bool(fam))
            models = {}
            for k, d in enumerate(doms):
                models[d["pop"]] = target if d["pop"] == "pi*" and not d["policy"] else target.derive(set(d["T"]), set(d["policy"]), case["mseed"] + 104729 * (fam + 1) + k)

            def provider(pop, do):
                if pop is None or pop not in models:
                    raise TypeError(f"term of an undeclared population: {pop}")
                if do:
                    raise TypeError("experimental term: only the domains' own distributions are declared")
                return models[pop].joint({})

            evl = Evaluator(target.card, provider)
            for vals in itt.product(*[range(target.card[n]) for n in names]):
                env = dict(zip(names, vals))
                if mode == "unconditional":
                    t = cfutil.truth(target, items, env)
                else:
                    pc = cfutil.truth(target, case["conditions"], env)
                    if pc == 0:
                        continue
                    t = cfutil.truth(target, items, env) / pc
                evl.set_reading({n: cfutil.value(mk[n], n, env, target.card) for n in rnames})
                try:
                    got = evl.ev(expr, env)
                except Undefined as e:
                    got = f"undefined({e})"
                except (FreeVariable, MultiWorld, TypeError) as e:
                    bad = {"kind": "answer-not-evaluable", "exc": repr(e)[:200]}
                    break
                if got != t:
                    bad = {"kind": "wrong-value", "assignment": env, "value": str(got), "truth": str(t), "family": fam}
                    break
            if bad:
                break
        if bad is None:
            passed = True
            break
        first_bad = first_bad or bad
    if not passed:
        k = first_bad.pop("kind")
        if isinstance(expr, Zero):
            k = "zero-returned-for-event-with-positive-probability"
        return fail(k, answer=expr.to_y0()[:1500], returned_event=cfutil.show(ret_items) if ret_items else None, **first_bad)
    out.nontrivial = "transported-from-source" in labels or "factors>=2" in labels
    out.labels = sorted(labels)
    return out


LEVEL_TEXT = (
    "Generated-input search with a semantic oracle: answers of ctfTRu / ctfTR are evaluated on multi-domain families of "
    "functional SCMs and compared exactly with the target counterfactual (conditional) probability; every input that passes "
    "y0's own validation must produce a result or FAIL. Exploration is the right level; inputs in the regions of open known "
    "findings are set aside and counted."
)
LEVEL_NOTE = "Trusts the functional-model enumeration, the domain construction (T-marked mechanisms redrawn, policy variables parentless) and the reading rule; bounded to 4 nodes."
TECHNIQUE = "property-based testing (Hypothesis) with an exact functional multi-domain SCM oracle"
