"""C11 — the canonical form is a true normal form."""

from __future__ import annotations

import json
import os
import subprocess
import sys

from hypothesis import strategies as st

from .. import exprgen
from ..common import Outcome, SplitMix, derive_seed
from ..exprsem import DEFAULT_NAMES
from .c10 import kinds, size

ID = "C11"
RULE = (
    "Generate an expression tree (raw constructors, depth <=4 over A..D or, a third of the time, over four names on which string / numeric / case-folded orderings disagree; all node kinds of C10) and an ordering. "
    "(1) idempotence: canonicalize(canonicalize(e,o),o) == canonicalize(e,o) as objects and as text. (2) presentation "
    "invariance: for drawn presentation permutations pi (shuffle factors, re-nest/flatten products, shuffle children and "
    "parents of every distribution and the subscripts) canonicalize(pi(e),o) == canonicalize(e,o) as objects and text. "
    "(3) configuration: a fixed generated corpus is canonicalised in subprocesses under several PYTHONHASHSEED values "
    "with set-typed inputs built in hash order; all outputs must be identical. Non-trivial = a product with >=3 factors "
    "or two factors sharing their first child, or a fraction; distinct = distinct spec."
)
ASSUMPTIONS = [
    "expressions bounded to depth 4 over 4 names",
    "presentation permutations are exactly those named by the property: factor order, product nesting, variable order on either side of the bar (and subscript order, which is a set)",
    "hash-seed sweep: 3 seeds quick, 8 thorough, corpus of 300/1500 expressions",
]
BUDGET = {
    "quick": dict(examples=1000, shards=16, seconds=200),
    "thorough": dict(examples=10000, shards=16, seconds=2400),
}
ESSENTIAL_LABELS = {t: ["tie:same-first-child", "factors>=3", "has:frac", "mixed-P-PP", "compound-fraction-that-cancels"] for t in ("quick", "thorough")}


# variable names on which the usual ways of ordering names disagree (string order, numeric order of digit runs, case
# folding, length, non-ASCII letters)
NAME_VARIANTS = ["X2", "X10", "X1", "X02", "V9", "V10", "a", "Z", "b", "B", "B1", "AA", "A_1", "A1", "β", "Ab", "aB", "_c"]


@st.composite
def _names(draw):
    if draw(st.integers(0, 2)) > 0:
        return None
    return list(draw(st.permutations(NAME_VARIANTS)))[: len(DEFAULT_NAMES)]


@st.composite
def _case(draw):
    depth = draw(st.sampled_from([1, 2, 2, 3, 3, 4]))
    spec = draw(exprgen.expr_specs(depth=depth, zero=draw(st.integers(0, 3)) == 0, mixed_worlds=True))
    order = draw(st.one_of(st.none(), st.permutations(DEFAULT_NAMES).map(list)))
    return {"spec": spec, "order": order, "perm": draw(st.integers(0, 2**32)), "names": draw(_names())}


@st.composite
def _cancelling_case(draw):
    """Compound fractions built with the constructors (not with '/'), whose parts cancel exactly only after the
    fraction has been re-arranged: (y*z*w / y) / z, (y*z / z) / y, y*z / (y / (1/z)), ..."""
    small = lambda: exprgen.expr_specs(depth=draw(st.sampled_from([0, 0, 1])), zero=False, mixed_worlds=True)  # noqa: E731
    y, z = draw(small()), draw(small())
    extra = [draw(small())] if draw(st.booleans()) else []
    rng = SplitMix(draw(st.integers(0, 2**32)))
    mk = lambda xs: xs[0] if len(xs) == 1 else {"t": "prod", "xs": xs}  # noqa: E731
    x = mk(rng.shuffle([exprgen.permute_presentation(y, rng), exprgen.permute_presentation(z, rng), *extra]))
    one = {"t": "one"}
    forms = [
        {"t": "frac", "n": {"t": "frac", "n": x, "d": y}, "d": z},
        {"t": "frac", "n": {"t": "frac", "n": x, "d": z}, "d": y},
        {"t": "frac", "n": x, "d": {"t": "frac", "n": y, "d": {"t": "frac", "n": one, "d": z}}},
        {"t": "frac", "n": {"t": "frac", "n": x, "d": y}, "d": {"t": "frac", "n": z, "d": one}},
        {"t": "frac", "n": {"t": "frac", "n": {"t": "frac", "n": x, "d": one}, "d": y}, "d": z},
        {"t": "frac", "n": x, "d": {"t": "prod", "xs": [y, z]}},
    ]
    spec = forms[draw(st.integers(0, len(forms) - 1))]
    wrap = draw(st.integers(0, 3))
    if wrap == 1:
        spec = {"t": "sum", "rs": [draw(st.sampled_from(DEFAULT_NAMES))], "x": spec}
    elif wrap == 2:
        spec = {"t": "prod", "xs": [spec, draw(small())]}
    order = draw(st.one_of(st.none(), st.permutations(DEFAULT_NAMES).map(list)))
    return {"spec": spec, "order": order, "perm": draw(st.integers(0, 2**32)), "cancelling": True, "names": draw(_names())}


def strategy(tier):
    return st.one_of(_case(), _case(), _case(), _cancelling_case())


def _first_children(s, acc):
    if s["t"] == "prod":
        firsts = [x["ch"][0][0] if x["t"] == "P" else None for x in s["xs"]]
        known = [f for f in firsts if f]
        if len(known) != len(set(known)):
            acc.add("tie:same-first-child")
        if len(exprgen.flatten_spec(s)["xs"]) >= 3:
            acc.add("factors>=3")
        pops = {bool(x.get("pop")) for x in s["xs"] if x["t"] == "P"}
        if len(pops) == 2:
            acc.add("mixed-P-PP")
    for x in s.get("xs", []):
        _first_children(x, acc)
    for k in ("x", "n", "d"):
        if k in s:
            _first_children(s[k], acc)


def check(case) -> Outcome:
    from y0.dsl import Variable
    from y0.mutate.canonicalize_expr import canonicalize

    spec = case["spec"]
    if case.get("names"):
        vmap = dict(zip(DEFAULT_NAMES, case["names"]))
        spec = exprgen.rename_spec(spec, vmap, {})
        case = {**case, "order": None if case["order"] is None else [vmap.get(n, n) for n in case["order"]], "variants": [exprgen.rename_spec(v, vmap, {}) for v in case.get("variants", [])]}
    out = Outcome(key=str(spec) + str(case["order"]))
    labels = {"has:" + k for k in kinds(spec)}
    if case.get("names"):
        labels.add("names-on-which-orderings-disagree")
    _first_children(spec, labels)
    if case.get("cancelling"):
        labels.add("compound-fraction-that-cancels")
    e = exprgen.build_raw(spec)
    # the ordering is typed Sequence[str | Variable]: names, variables, or a mixture
    order = None if case["order"] is None else [(n if (case["perm"] + i) % 3 == 0 else Variable(n)) for i, n in enumerate(case["order"])]

    def fail(kind, **kw):
        out.ok = False
        out.detail = {"kind": kind, "expression": e.to_y0(), "spec": spec, "order": case["order"], **kw}
        out.labels = sorted(labels)
        return out

    try:
        c1 = canonicalize(e, order)
        c2 = canonicalize(c1, order)
    except Exception as ex:
        return fail("canonicalize-raised", exc=repr(ex)[:300])
    if c2 != c1 or c2.to_y0() != c1.to_y0():
        return fail("not-idempotent", once=c1.to_y0(), twice=c2.to_y0())
    rng = SplitMix(case["perm"])
    variants = [exprgen.permute_presentation(spec, rng), exprgen.permute_presentation(spec, rng), exprgen.flatten_spec(spec), *case.get("variants", [])]
    for ps in variants:
        pe = exprgen.build_raw(ps)
        try:
            pc = canonicalize(pe, order)
        except Exception as ex:
            return fail("canonicalize-raised-on-permuted-presentation", permuted=pe.to_y0(), exc=repr(ex)[:300])
        if pc != c1 or pc.to_y0() != c1.to_y0():
            return fail("presentation-dependent", permuted=pe.to_y0(), canonical=c1.to_y0(), canonical_of_permuted=pc.to_y0())
    out.nontrivial = bool({"tie:same-first-child", "factors>=3", "has:frac"} & labels)
    out.sample = {"expression": e.to_y0(), "canonical": c1.to_y0()}
    out.labels = sorted(labels)
    return out


# ---------------------------------------------------------------------------
# configuration dimension: PYTHONHASHSEED sweep (runs once per run, in shard 0 of the custom hook below)

CORPUS_SCRIPT = r"""
import sys, json
sys.path.insert(0, sys.argv[1]); sys.path.insert(0, sys.argv[2])
from hypothesis import given, settings, seed, HealthCheck, Phase
from vf import exprgen
from y0.mutate.canonicalize_expr import canonicalize
from y0.dsl import Variable, Sum, Product, Distribution
out = []
from y0.dsl import Probability, PopulationProbability, Fraction, One, Zero, CounterfactualVariable
def sv(v):
    ints = sorted((i.name, bool(i.star)) for i in v.interventions) if isinstance(v, CounterfactualVariable) else []
    return [v.name, v.star, ints]
def struct(e):
    # hash-order independent structural dump: tuples keep their order, sets are sorted
    if isinstance(e, Probability):
        pop = e.population.name if isinstance(e, PopulationProbability) else None
        return ["P", pop, [sv(v) for v in e.children], [sv(v) for v in e.parents]]
    if isinstance(e, Product): return ["prod", [struct(x) for x in e.expressions]]
    if isinstance(e, Sum): return ["sum", sorted(r.name for r in e.ranges), struct(e.expression)]
    if isinstance(e, Fraction): return ["frac", struct(e.numerator), struct(e.denominator)]
    if isinstance(e, One): return ["one"]
    if isinstance(e, Zero): return ["zero"]
    return ["?", type(e).__name__]
@seed(int(sys.argv[3]))
@settings(max_examples=int(sys.argv[4]), database=None, deadline=None, suppress_health_check=list(HealthCheck), phases=[Phase.generate])
@given(exprgen.expr_specs(depth=3))
def t(spec):
    e = exprgen.build_raw(spec)
    # also present set-typed inputs in hash order (ranges, get_variables-based default ordering)
    try:
        out.append(json.dumps(struct(canonicalize(e))))
        out.append(json.dumps(struct(canonicalize(e, list({Variable(n) for n in "DCBA"})))))
    except Exception as ex:
        out.append("EXC " + type(ex).__name__)
t()
print(json.dumps(out))
"""


def hashseed_sweep(tier, seed):
    """Returns None or a failure detail."""
    from ..common import REPO_SRC, ROOT

    n = 300 if tier == "quick" else 1500
    seeds = ["0", "1", "4242"] if tier == "quick" else ["0", "1", "2", "3", "99", "4242", "65535", "123456789"]
    procs = []
    for hs in seeds:
        env = dict(os.environ, PYTHONHASHSEED=hs, VF_KEEP_HASHSEED="1")
        procs.append((hs, subprocess.Popen([sys.executable, "-c", CORPUS_SCRIPT, str(REPO_SRC), str(ROOT), str(derive_seed(seed, "c11corpus") % 2**31), str(n)], env=env, stdout=subprocess.PIPE, stderr=subprocess.PIPE, text=True)))
    outs = {}
    for hs, p in procs:
        o, e = p.communicate(timeout=900)
        if p.returncode != 0:
            from ..common import HarnessError

            raise HarnessError("hash-seed corpus subprocess failed: " + e[-800:])
        outs[hs] = json.loads(o)
    base = outs[seeds[0]]
    for hs in seeds[1:]:
        if len(outs[hs]) != len(base):
            from ..common import HarnessError

            raise HarnessError("hash-seed corpus lengths differ (generation is not hash-seed independent)")
        for i, (a, b) in enumerate(zip(base, outs[hs])):
            if a != b:
                return {"kind": "hash-seed-dependent", "PYTHONHASHSEED_a": seeds[0], "PYTHONHASHSEED_b": hs, "canonical_a": a, "canonical_b": b, "corpus_index": i}
    return {"ok": True, "corpus": len(base), "seeds": seeds}


def post_run(tier, seed):
    """Hook called by the driver after the generated search; returns (failure_detail|None, extra_coverage)."""
    r = hashseed_sweep(tier, seed)
    if r.get("ok"):
        return None, {"hashseed_sweep": r}
    return r, {"hashseed_sweep": "FAILED"}


LEVEL_TEXT = (
    "Generated-input search with metamorphic oracles: idempotence and invariance under presentation permutations on tens of "
    "thousands of expression trees, plus a PYTHONHASHSEED sweep of a generated corpus in subprocesses. Exploration is the right "
    "level for an algebraic law over an unbounded grammar and a configuration dimension that can be enumerated only by sampling."
)
LEVEL_NOTE = "Expressions bounded to depth 4 over 4 names; hash seeds sampled (3 quick / 8 thorough)."
TECHNIQUE = "property-based testing (Hypothesis), metamorphic relations (idempotence, permutation invariance) + configuration sweep over PYTHONHASHSEED"
