#!/venv/bin/python
"""For every confirmed seeded change, turn the shrunk failing input found under the patch into a pinned regression
replay (replays/<prop>_reg_<seed-name>.json) -- provided it passes on the unchanged tree.  Such replays make the
detection of that change independent of generator luck (the seconds-long replay tier)."""
import glob, json, os, shutil, subprocess, sys, tempfile
HERE = os.path.dirname(os.path.dirname(os.path.abspath(__file__)))
WT = "/tmp/vf_seed_wt"
def sh(*a, **k): return subprocess.run(a, capture_output=True, text=True, **k)
head = subprocess.check_output(["git", "-C", "/repo", "rev-parse", "HEAD"], text=True).strip()
SKIP_FILE = os.path.join(HERE, "replays", "no_regression_replay.json")
skip = json.load(open(SKIP_FILE)) if os.path.exists(SKIP_FILE) else []  # pairs for which no single input could be pinned
for d in sorted(glob.glob(os.path.join(HERE, "seeded", "*"))):
    meta = json.load(open(os.path.join(d, "meta.json")))
    name = meta["name"]
    if os.environ.get("VF_ONLY") and os.environ["VF_ONLY"] not in name:
        continue
    for prop in meta.get("caught_by", []):
        dest = os.path.join(HERE, "replays", f"{prop}_reg_{name}.json")
        if os.path.exists(dest) or [prop, name] in skip: continue
        sh("git", "-C", "/repo", "worktree", "remove", "--force", WT)
        sh("git", "-C", "/repo", "worktree", "add", "-f", "--detach", WT, head)
        sh("git", "-C", WT, "apply", os.path.join(d, "patch.diff"))
        ok = False
        for tier in os.environ.get("VF_SEEDED_TIERS", "quick,thorough").split(","):
            ev = tempfile.mkdtemp(prefix="vf_ev_")
            sh(os.path.join(HERE, "run.py"), prop, "--tier", tier, env=dict(os.environ, Y0_REPO=WT, VF_EVIDENCE_DIR=ev))
            cands = sorted(glob.glob(os.path.join(ev, "replays", f"{prop}_*.json")), key=os.path.getsize)
            for c in cands:
                body = json.load(open(c))
                if isinstance(body.get("case"), dict) and body["case"].get("post_run"): continue
                r_clean = sh(os.path.join(HERE, "run.py"), prop, "--replay", c)
                r_patch = sh(os.path.join(HERE, "run.py"), prop, "--replay", c, env=dict(os.environ, Y0_REPO=WT))
                if r_clean.returncode == 0 and "holds" in r_clean.stdout and r_patch.returncode == 1:
                    body["detail"] = {"note": f"regression replay: passes on the unchanged tree, fails with seeded change {name}"}
                    json.dump(body, open(dest, "w"), indent=1, ensure_ascii=False)
                    ok = True
                    break
            shutil.rmtree(ev, ignore_errors=True)
            if ok: break
        print(prop, name, "saved" if ok else "NO REPLAY", flush=True)
        if not ok:
            skip.append([prop, name])
            json.dump(skip, open(SKIP_FILE, "w"), indent=1)
sh("git", "-C", "/repo", "worktree", "remove", "--force", WT)
