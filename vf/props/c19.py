"""C19 — counterfactual event simplification and factorisation preserve probability."""

from __future__ import annotations

import itertools as itt

from hypothesis import strategies as st

from .. import cfutil, gen, ref_ctf
from ..common import Outcome, open_regions
from ..model import FSCM
from ..sem import AMBIGUOUS, AmbiguousReading, Evaluator, FreeVariable, MultiWorld, Undefined, interventions_of
from ..y0util import V, build_graph, graph_key, graph_sample

ID = "C19"
RULE = (
    "Generate an ADMG (2..5 nodes), counterfactual variables / events over it (subscripts none of which is an ancestor, "
    "reflexive subscripts Y_y, repeated variables, +/- marks) and two functional SCMs, and one of six sub-claims: "
    "(minimize) minimize_counterfactual(Y_x) is a well-formed variable that takes the same value as Y_x for EVERY exogenous "
    "configuration and base assignment, and equals the reference ||Y_x||; (simplify) simplify(event) has the same "
    "probability as the event for every base assignment, None only if that probability is 0 in all drawn models; "
    "(ancestors) get_ancestors_of_counterfactual equals Definition 2.1; (components) get_ancestral_components equals "
    "Definition 4.2 (merge on shared base variable or bidirected edge); (factor-form) convert_to_counterfactual_factor_form "
    "equals Definition 3.4 and passes is_counterfactual_factor_form; (factorization) the sum-product returned by "
    "do_counterfactual_factor_factorization, with multi-world factors evaluated jointly in the functional model, equals "
    "P(event). Non-trivial = a subscript was dropped, >=2 components, a bidirected edge leaves an ancestral set, or the "
    "factorisation has >=2 factors; distinct = distinct (sub-claim, graph, input)."
)
ASSUMPTIONS = [
    "graphs bounded to 5 nodes, events to 3 items, cardinality 2 (one model may use 3)",
    "Definition 4.2's 'not disjoint' is read on base variables (both y0 and the reference), because two counterfactual versions of a variable share its exogenous noise",
    "factorization: values of non-summed variables are the event's values; subscripts are literal",
]
BUDGET = {
    "quick": dict(examples=250, shards=16, seconds=200),
    "thorough": dict(examples=5000, shards=16, seconds=2400),
}
OPS = ["minimize", "simplify", "ancestors", "components", "factor_form", "factorization"]
ESSENTIAL_LABELS = {t: ["op:" + o for o in OPS] + ["subscript-dropped", "all-subscripts-dropped", "components>=2", "simplify:none", "factors>=2"] for t in ("quick", "thorough")}
REGION_REFLEXIVE = "event_has_reflexive_subscript"
REGION_PLUS_FACT = "factorization_event_has_plus_mark"
REGION_F15 = "ctf_symbol_needed_at_two_values"


def plus_value_propagated(g, items) -> bool:
    """F13a on the ctf side: some (counterfactual) ancestor W of the event has a parent p whose value is not fixed by
    W's own subscripts, so ctf-factor form writes '-p' -- while the event gives p the value '+'."""
    plus_names = {it["v"] for it in items if it["val"]}
    if not plus_names:
        return False
    d = set()
    for it in items:
        d |= ref_ctf.ancestors(g, _pair(it))
    for name, subs in d:
        own = {n for n, _ in subs}
        for u, v in g["di"]:
            if v == name and u not in own and u in plus_names:
                return True
    return False


def factor_subs(g, var, items):
    """Subscripts (name, mark) that the ctf-factor form of ``var`` carries with a value fixed by the event (its own subscripts)."""
    return [(n, s_) for n, s_ in var[1]]


def symbol_needed_twice(g, items) -> bool:
    """The factorisation needs one variable name at two values: two different counterfactual versions of a variable are
    among the ancestors, or a name that the event fixes as a subscript is also an ancestor that must be summed out."""
    d = set()
    for it in items:
        d |= ref_ctf.ancestors(g, _pair(it))
    outcome = {it["v"] for it in items}
    outcome_versions = {ref_ctf.minimize(g, _pair(it)) for it in items}
    versions, forms = {}, {}
    for v in d:
        versions.setdefault(v[0], set()).add(v)
        forms.setdefault(v[0], set()).add(ref_ctf.factor_form(g, v))
    for n, vs in versions.items():
        # two versions of a variable that has to be summed out (one summation symbol for two quantities), or two
        # versions that ctf-factor form writes identically (collapsed into one set element).  Two versions of an
        # versions that are BOTH (minimised) event items, with different ctf-factor forms, are written correctly and
        # are not part of this finding.
        if len(vs) > 1 and (not vs <= outcome_versions or len(forms[n]) < len(vs)):
            return True
    summed = {v[0] for v in d} - outcome
    fixed_subs = {n for it in items for n, _ in it["do"]}
    if summed & fixed_subs:
        return True
    # the event itself uses one name at two different values (as a value and as a subscript, or in two subscripts).
    # If the two occurrences sit in one counterfactual factor (same district of the ancestral sub-graph) the factor
    # is inconsistent and the procedure is expected to FAIL, which needs no second symbol; only occurrences in
    # different factors force one symbol to stand for two values.
    from ..ref_id import G as RG

    bases = {v[0] for v in d}
    rg = RG(sorted(bases), [e for e in g["di"] if e[0] in bases and e[1] in bases], [e for e in g["bi"] if e[0] in bases and e[1] in bases])
    dist = {}
    for comp in rg.districts():
        for n in comp:
            dist[n] = comp
    occ = {}  # name -> set of (mark, district of the variable that carries the occurrence)
    for v in d:
        for n, s_ in factor_subs(g, v, items):
            occ.setdefault(n, set()).add((bool(s_), dist.get(v[0])))
    for it in items:
        if it["val"] is not None and it["v"] in dist:
            occ.setdefault(it["v"], set()).add((bool(it["val"]), dist[it["v"]]))
    for n, os_ in occ.items():
        marks_ = {m for m, _ in os_}
        if len(marks_) > 1 and len({dd for _, dd in os_}) > 1:
            return True
    return False



@st.composite
def _case(draw, gs):
    g = draw(gs)
    op = draw(st.sampled_from(OPS + ["factorization", "factorization", "simplify"]))
    c = {"op": op, "g": g, "mseed": draw(st.integers(0, 2**32)), "max_card": draw(st.sampled_from([2, 2, 2, 3]))}
    if op in ("minimize", "ancestors", "factor_form"):
        c["event"] = draw(cfutil.event_items(g["nodes"], max_items=1, max_subs=3))
    elif op == "components":
        items = draw(cfutil.event_items(g["nodes"], max_items=4, plus=False, edges=g["di"]))
        k = draw(st.integers(0, len(items)))
        c["event"] = items
        c["n_conditioned"] = k
    elif op == "factorization":
        # reflexive subscripts are outside this sub-claim's domain (see check); do not spend cases on them
        c["event"] = draw(cfutil.event_items(g["nodes"], max_items=3, edges=g["di"], reflexive=draw(st.integers(0, 7)) == 0))
    else:
        c["event"] = draw(cfutil.event_items(g["nodes"], max_items=3, edges=g["di"]))
    return c


def strategy(tier):
    return st.one_of(_case(gen.admgs(2, 5)), _case(gen.admgs(2, 5, bi_densities=(2, 4), di_densities=(3, 5, 7))), _case(gen.embedded_admgs(1)))


def _pair(it):
    return (it["v"], frozenset((n, bool(s)) for n, s in it["do"]))


def _y0_event(items):
    return [(cfutil.build_variable(it), cfutil.build_value(it)) for it in items]


def _partition_problem(api, g, graph, items):
    """get_counterfactual_factors on the ancestral set D_* in ctf-factor form (Eq. 15): the blocks are non-empty, pairwise
    disjoint, cover D_*, and two variables share a block iff their vertices share a district of G[V(D_*)]."""
    from ..ref_id import G as RG

    d = set()
    for it in items:
        d |= ref_ctf.ancestors(g, _pair(it))
    forms = {ref_ctf.factor_form(g, v) for v in d}
    bases = {f[0] for f in forms}
    sub = graph.subgraph({V(b) for b in bases})
    variables = {cfutil.build_variable({"v": n, "do": sorted(map(list, subs))}): (n, subs) for n, subs in forms}
    blocks = api.get_counterfactual_factors(event=set(variables), graph=sub)
    rg = RG(sorted(bases), [e for e in g["di"] if e[0] in bases and e[1] in bases], [e for e in g["bi"] if e[0] in bases and e[1] in bases])
    want = {}
    for f in forms:
        want.setdefault(rg.district_of([f[0]]), set()).add(f)
    want = {frozenset(b) for b in want.values()}
    try:
        got = [frozenset(ref_ctf.to_pair(v) for v in b) for b in blocks]
    except Exception as e:
        return {"blocks": repr(blocks)[:300], "exc": repr(e)}
    if len(set(got)) != len(got) or set(got) != want or any(len(b) != len(fb) for b, fb in zip(blocks, got)):
        return {"blocks": sorted(sorted(map(str, b)) for b in blocks), "expected": sorted(sorted((n, sorted(s)) for n, s in b) for b in want)}
    return None


def _scramble(x):
    """A caller owns what a function hands back: empty every mutable container in a returned value."""
    try:
        if isinstance(x, (set, list, dict)):
            for y in list(x.values()) if isinstance(x, dict) else list(x):
                _scramble(y)
            x.clear()
        elif isinstance(x, tuple):
            for y in x:
                _scramble(y)
    except Exception:
        pass


def _prime(api, au, graph, g, items, h):
    """Earlier questions on the SAME graph object (answers and exceptions ignored, returned containers emptied by the
    'caller'): every helper is a function of its arguments, so none of this may change a later answer."""
    vs = [cfutil.build_variable(it) for it in items]
    ev = _y0_event(items)
    rot = ev[h % len(ev) :] + ev[: h % len(ev)]
    calls = [
        lambda: api.do_counterfactual_factor_factorization(variables=list(reversed(ev)), graph=graph),
        lambda: api.do_counterfactual_factor_factorization(variables=rot, graph=graph),
        lambda: [au.get_ancestors_of_counterfactual(v, graph) for v in vs],
        lambda: au.get_ancestral_components(conditioned_variables=set(vs[: (h >> 4) % (len(vs) + 1)]), root_variables=set(vs), graph=graph),
        lambda: api.simplify(event=list(ev), graph=graph),
        lambda: [au.minimize_counterfactual(v, graph) for v in vs],
        lambda: api.convert_to_counterfactual_factor_form(event=list(ev), graph=graph),
    ]
    k = 2 + (h >> 8) % 3
    for i in range(k):
        try:
            _scramble(calls[(h >> (3 * i)) % len(calls)]())
        except Exception:
            pass


def check(case, ignore_regions=False) -> Outcome:
    import zlib

    from y0.algorithm.counterfactual_transport import ancestor_utils as au
    from y0.algorithm.counterfactual_transport import api
    from y0.dsl import CounterfactualVariable, Variable

    op, g, items = case["op"], case["g"], case["event"]
    out = Outcome(key=op + "|" + graph_key(g) + "|" + cfutil.show(items) + "|" + str(case.get("n_conditioned")))
    labels = {"op:" + op} | {f for f in cfutil.features(g, items) if not f.startswith("worlds")}
    graph = build_graph(g)
    h = zlib.crc32(out.key.encode())
    if items and h % 3 == 0:
        labels.add("history:other-helpers-asked-first-on-the-same-graph")
        _prime(api, au, graph, g, items, h >> 2)
    out.sample = {"op": op, **graph_sample(g), "input": cfutil.show(items)}
    regions = set() if ignore_regions else open_regions(ID)

    def fail(kind, **kw):
        out.ok = False
        out.detail = {"kind": kind, "op": op, "graph": g, "event": items, "event_text": cfutil.show(items), **kw}
        out.labels = sorted(labels)
        return out

    def models():
        return [FSCM(g, case["mseed"] + 7919 * k, max_card=case["max_card"] if k == 0 else 2, clique_mode=bool(k)) for k in range(2)]

    try:
        if op == "minimize":
            it = items[0]
            var = cfutil.build_variable(it)
            r = au.minimize_counterfactual(var, graph)
            if not isinstance(r, Variable) or (isinstance(r, CounterfactualVariable) and not r.interventions) or r.name != it["v"]:
                return fail("not-a-well-formed-variable", result=repr(r))
            got = ref_ctf.to_pair(r)
            want = ref_ctf.minimize(g, _pair(it))
            if got != want:
                return fail("differs-from-definition", result=str(r), expected=sorted(want[1]))
            if len(got[1]) < len(it["do"]):
                labels.add("subscript-dropped")
                out.nontrivial = True
            if it["do"] and not got[1]:
                labels.add("all-subscripts-dropped")
            # same random variable: for every exogenous configuration and base assignment
            names = sorted({n for n, _ in it["do"]})
            for m in models():
                for vals in itt.product(*[range(m.card[n]) for n in names]):
                    env = dict(zip(names, vals))
                    do_full = {n: cfutil.value(s, n, env, m.card) for n, s in it["do"]}
                    do_min = {n: cfutil.value(s, n, env, m.card) for n, s in got[1]}
                    a, b = m.solutions(do_full), m.solutions(do_min)
                    ix = m.idx[it["v"]]
                    for k, (sa, sb) in enumerate(zip(a, b)):
                        if sa[ix] != sb[ix]:
                            return fail("minimised-variable-takes-a-different-value", result=str(r), assignment=env, exogenous=m.configs[k][0], original=sa[ix], minimised=sb[ix])
        elif op == "simplify":
            if REGION_REFLEXIVE in regions and "reflexive-subscript" in labels:
                out.excluded = REGION_REFLEXIVE
                return out
            r = api.simplify(event=_y0_event(items), graph=graph)
            new_items = None if r is None else cfutil.pairs_from_y0(r)
            if r is None:
                labels.add("simplify:none")
            elif len(new_items) < len(items) or any(len(a["do"]) < len(b["do"]) for a, b in zip(new_items, items)):
                labels.add("simplify:reduced")
                out.nontrivial = True
            if new_items is not None and any(it["val"] is None for it in new_items):
                return fail("simplified-event-has-a-variable-without-value", result=str(r))
            names = sorted(cfutil.names_in(items) | (cfutil.names_in(new_items) if new_items else set()))
            for m in models():
                for vals in itt.product(*[range(m.card[n]) for n in names]):
                    env = dict(zip(names, vals))
                    t0 = cfutil.truth(m, items, env)
                    if new_items is None:
                        if t0 != 0:
                            return fail("declared-impossible-but-positive-probability", assignment=env, probability=str(t0), model=m.params())
                    else:
                        t1 = cfutil.truth(m, new_items, env)
                        if t1 != t0:
                            return fail("probability-changed", result=cfutil.show(new_items), assignment=env, original=str(t0), simplified=str(t1), model=m.params())
        elif op == "ancestors":
            it = items[0]
            r = au.get_ancestors_of_counterfactual(cfutil.build_variable(it), graph)
            got = {ref_ctf.to_pair(v) for v in r}
            want = ref_ctf.ancestors(g, _pair(it))
            if got != want:
                return fail("differs-from-definition-2.1", result=sorted(map(str, r)), expected=sorted((n, sorted(s)) for n, s in want))
            out.nontrivial = len(want) >= 2 and bool(it["do"])
        elif op == "components":
            k = case["n_conditioned"]
            roots = [_pair(it) for it in items]
            conditioned = roots[:k]
            r = au.get_ancestral_components(conditioned_variables={cfutil.build_variable(it) for it in items[:k]}, root_variables={cfutil.build_variable(it) for it in items}, graph=graph)
            got = {frozenset(ref_ctf.to_pair(v) for v in comp) for comp in r}
            want = ref_ctf.ancestral_components(g, roots, conditioned)
            if got != want:
                return fail("differs-from-definition-4.2", result=sorted(sorted(map(str, c)) for c in r), expected=sorted(sorted((n, sorted(s)) for n, s in c) for c in want), n_conditioned=k)
            if len(want) >= 2:
                labels.add("components>=2")
                out.nontrivial = True
            inside = {v[0] for c in want for v in c}
            if any((a in inside) != (b in inside) for a, b in g["bi"]):
                labels.add("bidirected-edge-leaves-ancestral-set")
                out.nontrivial = True
        elif op == "factor_form":
            it = items[0]
            r = api.convert_to_counterfactual_factor_form(event=_y0_event([it]), graph=graph)
            if len(r) != 1 or r[0][1] != cfutil.build_value(it):
                return fail("value-not-preserved", result=str(r))
            got = ref_ctf.to_pair(r[0][0])
            want = ref_ctf.factor_form(g, _pair(it))
            if got != want:
                return fail("differs-from-definition-3.4", result=str(r[0][0]), expected=sorted(want[1]))
            if not api.is_counterfactual_factor_form(event={r[0][0]}, graph=graph):
                return fail("result-not-recognised-as-ctf-factor-form", result=str(r[0][0]))
            out.nontrivial = bool(want[1])
        elif op == "factorization":
            if REGION_PLUS_FACT in regions and plus_value_propagated(g, items):
                out.excluded = REGION_PLUS_FACT
                return out
            # Domain: events without reflexive subscripts (Definition 2.1 / Eq. 11 say nothing meaningful about Y_y, and
            # the procedures remove such items with SIMPLIFY before they factorise); causally irrelevant subscripts are
            # kept -- An(.) minimises them by definition, so the factorisation has to cope with non-minimal queries.
            if "reflexive-subscript" in labels:
                labels.add("factorization:reflexive(skipped)")
                out.labels = sorted(labels)
                return out
            simp = _y0_event(items)
            bad = _partition_problem(api, g, graph, items)
            if bad:
                return fail("ctf-factors-do-not-partition-the-ancestral-set", **bad)
            if REGION_F15 in regions and symbol_needed_twice(g, items):
                out.excluded = REGION_F15
                return out
            expr, ev2 = api.do_counterfactual_factor_factorization(variables=simp, graph=graph)
            nfac = len(getattr(expr, "expressions", ())) or 1
            inner = getattr(expr, "expression", expr)
            nfac = len(getattr(inner, "expressions", ())) or 1
            if nfac >= 2:
                labels.add("factors>=2")
                out.nontrivial = True
            out.sample["result"] = str(expr)[:300]
            names = sorted(g["nodes"])
            byname = {}
            for it in items:
                byname.setdefault(it["v"], set()).add(bool(it["val"]))
            # the returned event gives each variable (in ctf-factor form) its value; a name that the event lists in two
            # worlds at two different values is read per counterfactual version
            per_version = {}
            for var, val in ev2:
                k2 = (var.name, frozenset((i.name, bool(i.star)) for i in interventions_of(var)))
                mark = bool(getattr(val, "star", False))
                if per_version.setdefault(k2, mark) != mark:
                    labels.add("one-version-two-values(skipped)")
                    out.labels = sorted(labels)
                    return out
            if any(len(v) > 1 for v in byname.values()):
                labels.add("name-at-two-values")
            labels.add("factorization:evaluated")
            for m in models():
                ev = Evaluator(m.card, lambda pop, do, m=m: m.joint(do), cf_provider=lambda pop, its, m=m: m.prob_event(its))
                for vals in itt.product(*[range(m.card[n]) for n in names]):
                    env = dict(zip(names, vals))
                    t0 = cfutil.truth(m, items, env)
                    reading = {n: (cfutil.value(next(iter(s)), n, env, m.card) if len(s) == 1 else AMBIGUOUS) for n, s in byname.items()}
                    reading.update({k2: cfutil.value(mark, k2[0], env, m.card) for k2, mark in per_version.items()})
                    ev.set_reading(reading)
                    try:
                        got = ev.ev(expr, env)
                    except AmbiguousReading:
                        labels.add("ambiguous-unlisted-version(skipped)")
                        out.labels = sorted(labels)
                        return out
                    except (Undefined, FreeVariable, MultiWorld) as e:
                        return fail("factorisation-not-evaluable", result=str(expr), exc=repr(e))
                    if got != t0:
                        return fail("factorised-sum-product-differs-from-the-query", result=str(expr), assignment=env, value=str(got), truth=str(t0), model=m.params())
    except Exception as e:
        return fail("raised", exc=repr(e)[:300])
    out.labels = sorted(labels)
    return out


LEVEL_TEXT = (
    "Generated-input search: each helper of the counterfactual-transport layer is compared with an independent reference "
    "written from the published definitions and/or with the exact probability in functional SCMs with shared exogenous "
    "noise (per exogenous configuration for minimisation). Exploration is the right level for claims over all graphs, "
    "counterfactual variables and models."
)
LEVEL_NOTE = "Trusts vf/ref_ctf.py (definitions 2.1, 3.4, 4.2 of Correa et al.) and the functional-model enumeration; bounded sizes."
TECHNIQUE = "property-based testing (Hypothesis): differential against reference definitions + exact functional-SCM oracle"
