"""'For every distribution and value assignment' semantics for graph-free expression laws (C10-C13)."""

from __future__ import annotations

import itertools as itt

from .model import FreeTables
from .sem import Evaluator, FreeVariable, MultiWorld, Undefined

DEFAULT_NAMES = ["A", "B", "C", "D"]


def make_eval(names, mseed: int, card3=None):
    card = {n: 2 for n in names}
    if card3 in card:
        card[card3] = 3
    ft = FreeTables(names, card, mseed)
    ev = Evaluator(card, lambda pop, do: ft.joint(pop, do), q_provider=ft.qfactor, cf_provider=ft.cf)
    return ev, card


def envs(names, card):
    names = sorted(names)
    for vals in itt.product(*[range(card[n]) for n in names]):
        yield dict(zip(names, vals))


def value_vector(ev, expr, names, card):
    """Tuple of values over all environments; an entry is the string 'undef' where evaluation divides by zero."""
    out = []
    for env in envs(names, card):
        try:
            out.append(ev.ev(expr, env))
        except Undefined:
            out.append("undef")
    return tuple(out)


def first_difference(ev, e1, e2, names, card):
    """None if e1 and e2 denote the same function, else a detail dict (first differing environment)."""
    for env in envs(names, card):
        try:
            v1 = ev.ev(e1, env)
        except Undefined:
            v1 = "undef"
        try:
            v2 = ev.ev(e2, env)
        except Undefined:
            v2 = "undef"
        if v1 != v2:
            return {"assignment": env, "left_value": str(v1), "right_value": str(v2)}
    return None
