"""Reference identification on plain Python sets (independent of y0).

* :func:`identifiable_tian` -- Huang & Valtorta / Tian & Pearl criterion: P(y|do x) is identifiable iff every
  c-component of G[An(Y) in G minus X] can be identified from the c-component of G that contains it.
* :func:`identifiable_sp` -- Shpitser & Pearl's ID recursion (lines 1-7) carried out on sets only.
* :func:`numeric_id` -- the same recursion carried out *numerically* on a joint table (exact Fractions), so that a
  claim "identifiable" is certified by producing the right interventional distribution from observational input.

The two verdict procedures are cross-checked against each other; a disagreement is a harness error.
"""

from __future__ import annotations

from fractions import Fraction

import numpy as np

from .common import HarnessError
from .model import topo_order


class G:
    """Plain ADMG on names."""

    def __init__(self, nodes, di, bi):
        self.nodes = frozenset(nodes)
        self.di = frozenset((u, v) for u, v in di if u in self.nodes and v in self.nodes)
        self.bi = frozenset(frozenset(e) for e in bi if set(e) <= self.nodes and len(set(e)) == 2)

    def sub(self, keep):
        keep = frozenset(keep) & self.nodes
        return G(keep, self.di, [tuple(e) for e in self.bi])

    def without(self, drop):
        return self.sub(self.nodes - frozenset(drop))

    def cut_incoming(self, xs):
        xs = frozenset(xs)
        return G(self.nodes, [(u, v) for u, v in self.di if v not in xs], [tuple(e) for e in self.bi if not (e & xs)])

    def an(self, ys):
        res = set(ys) & self.nodes
        changed = True
        while changed:
            changed = False
            for u, v in self.di:
                if v in res and u not in res:
                    res.add(u)
                    changed = True
        return frozenset(res)

    def districts(self):
        left = set(self.nodes)
        out = []
        while left:
            s = {min(left)}
            grow = True
            while grow:
                grow = False
                for e in self.bi:
                    if e & s and not e <= s:
                        s |= e
                        grow = True
            out.append(frozenset(s))
            left -= s
        return out

    def district_of(self, nodes):
        for d in self.districts():
            if frozenset(nodes) <= d:
                return d
        return None

    def topo(self):
        return topo_order(self.nodes, self.di)


def identifiable_tian(nodes, di, bi, xs, ys) -> bool:
    g = G(nodes, di, bi)
    xs, ys = frozenset(xs), frozenset(ys)
    gd = g.without(xs)
    d = gd.an(ys)
    for c in g.sub(d).districts():
        t = g.district_of(c)
        while True:
            a = g.sub(t).an(c)
            if a == c:
                break
            if a == t:
                return False
            t = g.sub(a).district_of(c)
    return True


def identifiable_sp(nodes, di, bi, xs, ys) -> bool:
    return _sp(G(nodes, di, bi), frozenset(xs), frozenset(ys))


def _sp(g: G, xs, ys) -> bool:
    v = g.nodes
    if not xs:
        return True
    an = g.an(ys)
    if v - an:
        return _sp(g.sub(an), xs & an, ys)
    w = (v - xs) - g.cut_incoming(xs).an(ys)
    if w:
        return _sp(g, xs | w, ys)
    cs = g.without(xs).districts()
    if len(cs) > 1:
        return all(_sp(g, v - s, s) for s in cs)
    s = cs[0]
    gd = g.districts()
    if len(gd) == 1:
        return False
    if s in gd:
        return True
    sp = g.district_of(s)
    return _sp(g.sub(sp), xs & sp, ys)


def identifiable(nodes, di, bi, xs, ys) -> bool:
    a = identifiable_tian(nodes, di, bi, xs, ys)
    b = identifiable_sp(nodes, di, bi, xs, ys)
    if a != b:
        raise HarnessError(f"reference identifiability procedures disagree on {sorted(nodes)} {sorted(di)} {sorted(map(sorted, bi))} X={sorted(xs)} Y={sorted(ys)}: tian={a} sp={b}")
    return a


# ---------------------------------------------------------------------------
# numeric ID on tables


class Unident(Exception):
    pass


def _frac_array(table):
    arr = np.empty(table.arr.shape, dtype=object)
    for ix in np.ndindex(*table.arr.shape):
        arr[ix] = Fraction(int(table.arr[ix]), table.den)
    return arr


def numeric_id(nodes, di, bi, xs, ys, table):
    """Return an object array over ``table.names`` axes (singleton axes for variables the answer does not depend
    on) holding P(ys | do(xs)) computed from the observational joint by the ID recursion.  Raises Unident."""
    names = list(table.names)
    ax = {n: i for i, n in enumerate(names)}
    p = _frac_array(table)

    def marg(arr, vs):
        """Sum ``arr`` over the variables ``vs``; a variable the array does not depend on (singleton axis)
        contributes a factor equal to its cardinality."""
        axes = tuple(ax[n] for n in vs if arr.shape[ax[n]] > 1)
        k = 1
        for n in vs:
            if arr.shape[ax[n]] == 1:
                k *= table.card[n]
        out = arr.sum(axis=axes, keepdims=True) if axes else arr
        return out * k if k != 1 else out

    def rec(g: G, xs, ys, p):
        v = g.nodes
        if not xs:
            return marg(p, v - ys)
        an = g.an(ys)
        if v - an:
            return rec(g.sub(an), xs & an, ys, marg(p, v - an))
        w = (v - xs) - g.cut_incoming(xs).an(ys)
        if w:
            return rec(g, xs | w, ys, p)
        cs = g.without(xs).districts()
        if len(cs) > 1:
            prod = None
            for s in cs:
                r = rec(g, v - s, s, p)
                prod = r if prod is None else prod * r
            return marg(prod, v - (ys | xs))
        s = cs[0]
        gd = g.districts()
        if len(gd) == 1:
            raise Unident()
        order = g.topo()

        def cond(vi):
            i = order.index(vi)
            later = set(order[i + 1 :])
            return marg(p, later) / marg(p, later | {vi})

        if s in gd:
            prod = None
            for vi in sorted(s):
                c = cond(vi)
                prod = c if prod is None else prod * c
            return marg(prod, s - ys)
        sp = g.district_of(s)
        prod = None
        for vi in sorted(sp):
            c = cond(vi)
            prod = c if prod is None else prod * c
        return rec(g.sub(sp), xs & sp, ys, prod)

    return rec(G(nodes, di, bi), frozenset(xs), frozenset(ys), p), names
