"""Reference implementations of the definitions of Correa, Lee & Bareinboim (2022) on plain data.

A counterfactual variable is a pair (name, frozenset of (sub_name, star)) ; star False = '-', True = '+'.
Graph: dict with "nodes", "di", "bi" (plain names).
"""

from __future__ import annotations

import itertools as itt


def _anc(nodes, di, targets):
    res = set(targets) & set(nodes)
    ch = True
    while ch:
        ch = False
        for u, v in di:
            if v in res and u not in res:
                res.add(u)
                ch = True
    return res


def minimize(g, var):
    """||Y_x|| = Y_t with T = X intersect An(Y) in G with edges into X removed (last paragraph of Section 4)."""
    name, subs = var
    xs = {n for n, _ in subs}
    di = [(u, v) for u, v in g["di"] if v not in xs]
    anc = _anc(g["nodes"], di, {name})
    return (name, frozenset((n, s) for n, s in subs if n in anc))


def ancestors(g, var, removed_out=()):
    """Definition 2.1: An(Y_x) = { W_z : W in An(Y) in G with edges out of X removed, z = x restricted to An(W) in G
    with edges into X removed }.  ``removed_out``: extra nodes whose outgoing edges are removed beforehand (used for
    the ancestral sets of Definition 4.2)."""
    name, subs = var
    xs = {n for n, _ in subs}
    base_di = [(u, v) for u, v in g["di"] if u not in set(removed_out)]
    di_under = [(u, v) for u, v in base_di if u not in xs]
    di_over = [(u, v) for u, v in base_di if v not in xs]
    out = set()
    for w in _anc(g["nodes"], di_under, {name}):
        aw = _anc(g["nodes"], di_over, {w})
        out.add((w, frozenset((n, s) for n, s in subs if n in aw)))
    return out


def ancestral_components(g, roots, conditioned):
    """Definition 4.2, with 'not disjoint' read on base variables (two counterfactual versions of one variable share its
    exogenous noise): sets are merged if they share a base variable or a bidirected edge joins base variables of the two."""
    cond_min = {minimize(g, c) for c in conditioned}
    sets = []
    for w in roots:
        aw = ancestors(g, w)
        xw = {c[0] for c in cond_min if c in aw}
        sets.append(frozenset(ancestors(g, w, removed_out=xw)))
    sets = list(dict.fromkeys(sets))
    parent = list(range(len(sets)))

    def find(i):
        while parent[i] != i:
            parent[i] = parent[parent[i]]
            i = parent[i]
        return i

    bases = [{v[0] for v in s} for s in sets]
    bi = [tuple(e) for e in g["bi"]]
    for i, j in itt.combinations(range(len(sets)), 2):
        linked = bool(bases[i] & bases[j]) or any((a in bases[i] and b in bases[j]) or (b in bases[i] and a in bases[j]) for a, b in bi)
        if linked:
            parent[find(i)] = find(j)
    comps = {}
    for i, s in enumerate(sets):
        comps.setdefault(find(i), set()).update(s)
    return {frozenset(c) for c in comps.values()}


def factor_form(g, var):
    """Definition 3.4 / Eq. 12: W_{pa_w}: every parent of W is a subscript; values come from W's own subscripts where the
    parent is intervened on, otherwise the parent's own (current) value '-pa'."""
    name, subs = var
    pa = {u for u, v in g["di"] if v == name}
    own = {n: s for n, s in subs}
    return (name, frozenset((p, own.get(p, False)) for p in pa))


def to_pair(v):
    """y0 variable -> (name, frozenset((sub, star)))"""
    from y0.dsl import CounterfactualVariable

    if isinstance(v, CounterfactualVariable):
        return (v.name, frozenset((i.name, bool(i.star)) for i in v.interventions))
    return (v.name, frozenset())
