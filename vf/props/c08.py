"""C08 — IDC* estimands equal the conditional counterfactual probability."""

from __future__ import annotations

import importlib
import itertools as itt
import os

from hypothesis import strategies as st

from .. import cfutil, gen
from ..common import Outcome, open_regions
from ..model import FSCM
from ..sem import Evaluator, FreeVariable, MultiWorld, Undefined, free_names, leaves, names_of
from ..y0util import CallTrace, build_graph, graph_key, graph_sample
from . import c07

ID = "C08"
RULE = (
    "Generate an ADMG (2..4 nodes quick, ..5 thorough), an outcome conjunction and a non-empty condition conjunction of "
    "counterfactual events (disjoint keys) and two functional SCMs. Call idc_star. (1) A condition that is impossible by "
    "the axiom of effectiveness (X_{..x..} = x') or because it gives one random variable two values (Y_x = y, Y = y' with X no ancestor of Y) must be rejected with ValueError, never answered. (2) A returned "
    "expression, read with the events' own values (DESIGN.md 3.3), must equal P(outcomes & conditions)/P(conditions) for "
    "every base assignment in every model where P(conditions) > 0 (exact Fractions); Zero() is accepted only if the joint "
    "event has probability 0 in all drawn models; the only admissible exceptions are Unidentifiable and the ValueError of "
    "(1). Non-trivial = an expression was returned and the rule-2 test was evaluated on a counterfactual graph with >=2 "
    "worlds or the answer is a quotient; distinct = distinct (graph, outcomes, conditions)."
)
ASSUMPTIONS = [
    "graphs bounded to 5 nodes, <=2 outcome and <=2 condition items, cardinality 2 (one model may use 3)",
    "reading rule of DESIGN.md section 3.3; ambiguous symbols read leniently; assignments with P(conditions)=0 are skipped",
    "two functional models per case",
]
BUDGET = {
    "quick": dict(examples=1800, shards=16, seconds=240),
    "thorough": dict(examples=4000, shards=16, seconds=2400),
}
ESSENTIAL_LABELS = {t: ["answered", "rule2-evaluated", "rule2-applied", "rejected-impossible-condition", "quotient"] for t in ("quick", "thorough")}
REGION_F22 = "idcstar_normaliser_sums_non_outcome_name"
REGION_F25 = "idcstar_rule2_ignores_other_conditions"
REGION_F24 = "outcome_and_condition_share_a_base_variable"
REGION_F32 = "idcstar_merge_justified_by_an_outcome_value"


@st.composite
def _case(draw, gs, plus):
    g = draw(gs)
    items = draw(cfutil.event_items(g["nodes"], max_items=4, min_items=2, plus=plus, edges=g["di"]))
    if draw(st.integers(0, 2)) > 0:
        # most of the time: one item per variable -- an outcome and a condition on the same variable put the case into
        # the open finding F24, where nothing can be judged
        firsts, seen = [], set()
        for it in items:
            if it["v"] not in seen:
                seen.add(it["v"])
                firsts.append(it)
        items = firsts
    if len(items) < 2:
        v = sorted(set(g["nodes"]) - {items[0]["v"]})[0] if len(g["nodes"]) > 1 else items[0]["v"]
        extra = {"v": v, "do": [], "val": False}
        if cfutil.item_key(extra) != cfutil.item_key(items[0]):
            items = items + [extra]
    k = draw(st.integers(1, max(1, len(items) - 1)))
    perm = list(draw(st.permutations(items)))
    return {"g": g, "outcomes": perm[:k] if len(perm) > 1 else perm, "conditions": perm[k:] if len(perm) > 1 else [], "mseed": draw(st.integers(0, 2**32)), "max_card": draw(st.sampled_from([2, 2, 2, 3]))}


def strategy(tier):
    mx = 4 if tier == "quick" else 5
    return st.one_of(
        _case(gen.admgs(2, mx), True),
        _case(gen.admgs(2, mx), False),
        _case(gen.admgs(2, mx, bi_densities=(0,), di_densities=(4, 6, 8)), False),
        _case(gen.admgs(2, mx, bi_densities=(0, 2), di_densities=(4, 6, 8)), False),
        _case(gen.embedded_admgs(1), False),
    )


def joint_case(case):
    return {"g": case["g"], "event": case["outcomes"] + case["conditions"]}


def bucket_features(case):
    f = set(c07.bucket_features(joint_case(case)))
    return f


def effectiveness_violation(items) -> bool:
    return any(n == it["v"] and bool(s) != bool(it["val"]) for it in items for n, s in it["do"])


def same_variable_two_values(g, items) -> bool:
    """Two items that are the SAME random variable once causally irrelevant subscripts are dropped (Y_x = Y when X is not
    an ancestor of Y) and that are given different values: impossible in every model."""
    from .. import ref_ctf

    seen = {}
    for it in items:
        if any(n == it["v"] for n, _ in it["do"]):
            continue
        key = ref_ctf.minimize(g, (it["v"], frozenset((n, bool(s)) for n, s in it["do"])))
        if seen.setdefault(key, bool(it["val"])) != bool(it["val"]):
            return True
    return False


def normaliser_problem(estimand, conditions) -> bool:
    """True if Expression.conditional(conditions) sums over a name that is not a free outcome variable of the estimand."""
    from y0.dsl import CounterfactualVariable, Probability

    cond = {c.name for c in conditions}
    should = set()
    for leaf in leaves(estimand):
        if isinstance(leaf, Probability):
            should |= {v.name for v in itt.chain(leaf.children, leaf.parents)}
    bound = names_of(estimand) - free_names(estimand)
    subs = set()
    for leaf in leaves(estimand):
        if isinstance(leaf, Probability):
            for v in itt.chain(leaf.children, leaf.parents):
                if isinstance(v, CounterfactualVariable):
                    subs |= {i.name for i in v.interventions}
    if isinstance(estimand, Probability):
        summed = {v.name for v in itt.chain(estimand.children, estimand.parents)} - cond
    else:
        summed = set(names_of(estimand)) - cond
    legit = (should - bound - subs) - cond
    return summed != legit


def check(case, ignore_regions=False) -> Outcome:
    from y0.algorithm.identify import Unidentifiable
    from y0.dsl import Expression, Fraction, Zero

    idc = importlib.import_module("y0.algorithm.identify.idc_star")
    g, outs, conds = case["g"], case["outcomes"], case["conditions"]
    items = outs + conds
    out = Outcome(key=graph_key(g) + "|" + cfutil.show(outs) + " | " + cfutil.show(conds))
    labels = set(cfutil.features(g, items))
    graph = build_graph(g)
    out.sample = {**graph_sample(g), "outcomes": cfutil.show(outs), "conditions": cfutil.show(conds)}

    def fail(kind, **kw):
        out.ok = False
        out.detail = {"kind": kind, "graph": g, "outcomes": outs, "conditions": conds, "text": cfutil.show(outs) + " | " + cfutil.show(conds), **kw}
        out.labels = sorted(labels)
        return out

    if not conds:
        out.labels = ["no-conditions(skipped)"]
        return out
    o_ev, c_ev = cfutil.build_event(outs), cfutil.build_event(conds)
    impossible = effectiveness_violation(conds) or same_variable_two_values(g, conds)
    # region by input (the ID* findings apply to the joint event); the rejection clause is checked regardless
    region = None if ignore_regions else c07.in_region(joint_case(case))
    if region and not (region in (open_regions("C07") | open_regions(ID)) or os.environ.get("VF_C07_ALL_REGIONS")):
        region = None
    if region is None and not ignore_regions and REGION_F24 in open_regions(ID) and {it["v"] for it in outs} & {it["v"] for it in conds}:
        region = REGION_F24
    id_results, idc_args, rule2, f32 = [], [], [], []
    cgm = importlib.import_module("y0.algorithm.identify.cg")
    outcome_names = {it["v"] for it in outs}

    def on_same_value(a, k, r):
        # F32 call-site predicate: Lemma 24 declared two different nodes equal because one of them is OBSERVED, by an
        # outcome item, at the value the other one is set to -- an equality that holds given the outcomes, not given
        # the conditions alone
        try:
            ev_, n1, n2 = a[1], a[2], a[3]
            if r and n1 != n2 and (n1 in ev_) != (n2 in ev_):
                seen_node = n1 if n1 in ev_ else n2
                if seen_node.name in outcome_names:
                    f32.append(True)
        except Exception:
            pass

    with CallTrace(cgm, ["nodes_attain_same_value"]) as trcg, CallTrace(idc, ["id_star", "idc_star", "cf_rule_2_of_do_calculus_applies", "make_counterfactual_graph"]) as tr:
        trcg.observe("nodes_attain_same_value", on_same_value)
        tr.observe("id_star", lambda a, k, r: id_results.append(r))
        def on_rule2(a, k, r):
            cf_graph, outs_, cond_ = a[0], list(a[1]), a[2]
            rule2.append((bool(r), len({getattr(n, "interventions", frozenset()) for n in cf_graph.nodes()})))
            if r and idc_args:
                # F25 call-site predicate: would the separation still hold given the other conditions?
                from y0.algorithm.conditional_independencies import are_d_separated
                from y0.algorithm.identify.cg import is_not_self_intervened

                cur = idc_args[-1][0][2] if len(idc_args[-1][0]) > 2 else idc_args[-1][1].get("conditions", {})
                cnames = {c.name for c in cur}
                others = {n for n in cf_graph.nodes() if n.name in cnames and n != cond_ and n not in outs_}
                base = {n for n in cf_graph.nodes() if not is_not_self_intervened(n)}
                gm = cf_graph.remove_out_edges(cond_)
                try:
                    if others and not all(are_d_separated(gm, o, cond_, conditions=(base | others) - {o, cond_}) for o in outs_):
                        f25.append(True)
                except Exception:
                    pass

        f25 = []
        tr.observe("cf_rule_2_of_do_calculus_applies", on_rule2)
        orig = tr._saved.get("idc_star")

        def rec(*a, **k):
            idc_args.append((a, k))
            return orig(*a, **k)

        if orig is not None:
            idc.idc_star = rec
        try:
            est = idc.idc_star(graph, dict(o_ev), dict(c_ev))
            exc = None
        except Exception as e:  # noqa
            est, exc = None, e
    if impossible:
        labels.add("impossible-condition")
        if not isinstance(exc, ValueError):
            return fail("impossible-condition-not-rejected", returned=None if est is None else est.to_y0(), exc=repr(exc)[:200])
        labels.add("rejected-impossible-condition")
        out.labels = sorted(labels)
        out.nontrivial = True
        return out
    if region:
        out.excluded = region
        return out
    if rule2:
        labels.add("rule2-evaluated")
        if any(r for r, _ in rule2):
            labels.add("rule2-applied")
        if any(w >= 2 for _, w in rule2):
            labels.add("rule2-on-multiworld-graph")
    if isinstance(exc, Unidentifiable):
        labels.add("unidentifiable")
        out.labels = sorted(labels)
        return out
    models = [FSCM(g, case["mseed"] + 7919 * k, max_card=case["max_card"] if k == 0 else 2, clique_mode=bool(k)) for k in range(2)]
    names = sorted(g["nodes"])
    if isinstance(exc, ValueError):
        # only legitimate if the conditions really are impossible: a positive witness refutes that
        for m in models:
            for vals in itt.product(*[range(m.card[n]) for n in names]):
                env = dict(zip(names, vals))
                pc = cfutil.truth(m, conds, env)
                if pc != 0:
                    return fail("possible-condition-rejected", exc=repr(exc)[:200], assignment=env, probability_of_conditions=str(pc))
        labels.add("rejected-zero-probability-condition")
        out.labels = sorted(labels)
        return out
    if exc is not None:
        return fail("idc_star-raised-other", exc=repr(exc)[:300])
    if not isinstance(est, Expression):
        return fail("non-expression-returned", type=str(type(est)))
    # F22: call-site region, decided from what idc_star handed to Expression.conditional
    if not ignore_regions and REGION_F22 in open_regions(ID) and id_results and idc_args:
        last = id_results[-1]
        last_conds = idc_args[-1][0][2] if len(idc_args[-1][0]) > 2 else idc_args[-1][1].get("conditions", {})
        if last_conds and not isinstance(last, Zero) and normaliser_problem(last, list(last_conds)):
            out.excluded = REGION_F22
            return out
    if not ignore_regions and REGION_F25 in open_regions(ID) and f25:
        out.excluded = REGION_F25
        return out
    if not ignore_regions and REGION_F32 in open_regions(ID) and f32:
        out.excluded = REGION_F32
        return out
    labels.add("zero" if isinstance(est, Zero) else "answered")
    if isinstance(est, Fraction):
        labels.add("quotient")
    out.sample["estimand"] = est.to_y0()[:400]
    # truth
    first_bad = None
    mark_choices = {}
    for it in items:
        mark_choices.setdefault(it["v"], set()).add(bool(it["val"]))
    for it in items:
        for n, s in it["do"]:
            if n not in {i["v"] for i in items}:
                mark_choices.setdefault(n, set()).add(bool(s))
    rnames = sorted(mark_choices)
    if any(len(v) > 1 for v in mark_choices.values()):
        labels.add("ambiguous-symbol")
    passed = False
    for choice in itt.product(*[sorted(mark_choices[n]) for n in rnames]):
        marks = dict(zip(rnames, choice))
        bad = None
        for m in models:
            ev = Evaluator(m.card, lambda pop, do, m=m: m.joint(do))
            for vals in itt.product(*[range(m.card[n]) for n in names]):
                env = dict(zip(names, vals))
                pc = cfutil.truth(m, conds, env)
                if pc == 0:
                    continue
                t = cfutil.truth(m, items, env) / pc
                ev.set_reading({n: cfutil.value(marks[n], n, env, m.card) for n in rnames})
                try:
                    got = ev.ev(est, env)
                except Undefined as e:
                    got = f"undefined({e})"
                except FreeVariable as e:
                    bad = {"kind": "free-variable", "name": str(e)}
                    break
                except MultiWorld as e:
                    bad = {"kind": "multi-world-term", "term": str(e)}
                    break
                if got != t:
                    bad = {"kind": "wrong-value", "assignment": env, "value": str(got), "truth": str(t), "model": m.params()}
                    break
            if bad:
                break
        if bad is None:
            passed = True
            break
        first_bad = first_bad or bad
    if not passed:
        k = first_bad.pop("kind")
        if isinstance(est, Zero):
            k = "zero-returned-for-event-with-positive-probability"
        return fail(k, estimand=est.to_y0(), **first_bad)
    out.nontrivial = "answered" in labels and ("rule2-on-multiworld-graph" in labels or "quotient" in labels)
    out.labels = sorted(labels)
    return out


LEVEL_TEXT = (
    "Generated-input search with a semantic oracle: IDC* answers are evaluated on functional SCMs with shared exogenous noise "
    "and compared exactly with P(outcomes & conditions)/P(conditions); the rejection of impossible conditions is checked on "
    "every generated case. Exploration is the right level; the quiet region is narrow because several root causes found on "
    "the pinned tree are open known findings whose regions are set aside and counted."
)
LEVEL_NOTE = "Trusts the functional-model enumeration and the reading rule; bounded sizes; inputs inside open known-finding regions (those of C07 plus the IDC* normaliser finding) are set aside and counted."
TECHNIQUE = "property-based testing (Hypothesis) with an exact functional-SCM oracle (multi-world enumeration)"
