"""Denotational semantics of y0 expressions, written from the DSL documentation.

``Evaluator(card, provider).ev(expr, env)`` returns an exact ``Fraction``.

* ``env`` maps variable *names* to values.  A variable with ``star`` None or False reads the environment; ``star``
  True reads the successor ``(v+1) mod card`` (a fixed-point-free "other value", so a sum over ``+Y`` equals a sum
  over ``Y``).
* ``Sum[R](e)`` rebinds the names in ``R`` over their full ranges.
* ``P(children | parents)`` whose variables all carry one common subscript set ``do`` is
  ``joint_{pop,do}(children, parents) / joint_{pop,do}(parents)``; ``provider(pop, do)`` supplies the joint table
  (``pop`` is the population name or None).
* a term whose variables carry different subscript sets (multi-world) is evaluated as a joint counterfactual
  probability when ``cf_provider`` is given, otherwise :class:`MultiWorld` is raised.
* ``QFactor`` is an opaque positive function supplied by ``q_provider``.
* reading rule for counterfactual answers (``reading`` dict): an unbound ``star=None`` variable named N takes
  ``reading[N]``; marked variables (``-N``/``+N``) read the base environment.  A key ``(N, frozenset((name, plus)))``
  gives the value of one specific counterfactual version of N (used when the answer's event lists N in two worlds).

A name that is neither bound nor in the environment/reading raises :class:`FreeVariable`.
"""

from __future__ import annotations

import itertools as itt
from fractions import Fraction as Fr

from y0.dsl import (
    CounterfactualVariable,
    Expression,
    Fraction,
    One,
    PopulationProbability,
    Probability,
    Product,
    QFactor,
    Sum,
    Zero,
)


class FreeVariable(Exception):
    pass


class MultiWorld(Exception):
    pass


class Undefined(Exception):
    """Division by zero / conditioning on a null event inside the expression."""


class AmbiguousReading(Exception):
    """An unbound name that the returned event lists at two values occurs in a form the event does not list."""


AMBIGUOUS = object()


def interventions_of(v):
    return v.interventions if isinstance(v, CounterfactualVariable) else frozenset()


def names_of(expr) -> frozenset:
    """All variable names mentioned anywhere (children, parents, subscripts, ranges)."""
    out = set()
    stack = [expr]
    while stack:
        e = stack.pop()
        if isinstance(e, Probability):
            for v in itt.chain(e.children, e.parents):
                out.add(v.name)
                for i in interventions_of(v):
                    out.add(i.name)
        elif isinstance(e, Product):
            stack.extend(e.expressions)
        elif isinstance(e, Sum):
            out.update(r.name for r in e.ranges)
            stack.append(e.expression)
        elif isinstance(e, Fraction):
            stack.append(e.numerator)
            stack.append(e.denominator)
        elif isinstance(e, QFactor):
            for v in itt.chain(e.domain, e.codomain):
                out.add(v.name)
                for i in interventions_of(v):
                    out.add(i.name)
    return frozenset(out)


def free_names(expr, bound=frozenset()) -> frozenset:
    if isinstance(expr, Probability) or isinstance(expr, QFactor):
        return names_of(expr) - bound
    if isinstance(expr, Product):
        out = frozenset()
        for s in expr.expressions:
            out |= free_names(s, bound)
        return out
    if isinstance(expr, Sum):
        return free_names(expr.expression, bound | {r.name for r in expr.ranges})
    if isinstance(expr, Fraction):
        return free_names(expr.numerator, bound) | free_names(expr.denominator, bound)
    return frozenset()


def leaves(expr):
    """Yield every Probability / QFactor leaf."""
    stack = [expr]
    while stack:
        e = stack.pop()
        if isinstance(e, (Probability, QFactor)):
            yield e
        elif isinstance(e, Product):
            stack.extend(e.expressions)
        elif isinstance(e, Sum):
            stack.append(e.expression)
        elif isinstance(e, Fraction):
            stack.append(e.numerator)
            stack.append(e.denominator)


class Evaluator:
    def __init__(self, card, provider, cf_provider=None, q_provider=None, reading=None, default_card=2):
        self.card = card
        self.provider = provider
        self.cf = cf_provider
        self.q = q_provider
        self.reading = reading
        self.default_card = default_card
        self._memo = {}
        self._fn = {}
        self._keep = []

    def set_reading(self, reading):
        self.reading = reading
        self._memo.clear()

    # -- values -----------------------------------------------------------
    def _card(self, name):
        return self.card.get(name, self.default_card)

    def val(self, var, env, bound):
        name = var.name
        if name not in bound and var.star is None and self.reading is not None:
            # a returned event may list one name in several counterfactual versions, each with its own value
            k2 = (name, frozenset((i.name, bool(i.star)) for i in interventions_of(var)))
            if k2 in self.reading:
                return self.reading[k2]
            if name in self.reading:
                r = self.reading[name]
                if r is AMBIGUOUS:
                    raise AmbiguousReading(name)
                return r
        try:
            b = env[name]
        except KeyError:
            raise FreeVariable(name) from None
        if var.star:
            return (b + 1) % self._card(name)
        return b

    # -- evaluation -------------------------------------------------------
    def ev(self, e: Expression, env: dict, bound=frozenset()) -> Fr:
        ident = id(e)
        fn = self._fn.get(ident)
        if fn is None:
            fn = tuple(sorted(names_of(e)))
            self._fn[ident] = fn
            self._keep.append(e)
        try:
            key = (ident, tuple(env.get(n) for n in fn), tuple(n in bound for n in fn))
        except TypeError:
            key = None
        if key is not None and key in self._memo:
            return self._memo[key]
        r = self._ev(e, env, bound)
        if key is not None:
            self._memo[key] = r
        return r

    def _ev(self, e, env, bound):
        if isinstance(e, Probability):
            return self._prob(e, env, bound)
        if isinstance(e, Product):
            r = Fr(1)
            for s in e.expressions:
                r *= self.ev(s, env, bound)
            return r
        if isinstance(e, Sum):
            rs = sorted({r.name for r in e.ranges})
            tot = Fr(0)
            b2 = bound | set(rs)
            for vals in itt.product(*[range(self._card(r)) for r in rs]):
                env2 = dict(env)
                env2.update(zip(rs, vals))
                tot += self.ev(e.expression, env2, b2)
            return tot
        if isinstance(e, Fraction):
            d = self.ev(e.denominator, env, bound)
            if d == 0:
                raise Undefined("division by zero")
            return self.ev(e.numerator, env, bound) / d
        if isinstance(e, One):
            return Fr(1)
        if isinstance(e, Zero):
            return Fr(0)
        if isinstance(e, QFactor):
            if self.q is None:
                raise TypeError("no Q-factor provider")
            cod = {v.name: self.val(v, env, bound) for v in e.codomain}
            dom = {v.name: self.val(v, env, bound) for v in e.domain}
            return self.q(cod, dom)
        raise TypeError(f"cannot evaluate {type(e)}")

    def _assign(self, variables, env, bound):
        """name -> value; None if the same name gets two different values (contradiction)."""
        out = {}
        for v in variables:
            x = self.val(v, env, bound)
            if v.name in out and out[v.name] != x:
                return None
            out[v.name] = x
        return out

    def _prob(self, e, env, bound):
        worlds = {interventions_of(v) for v in itt.chain(e.children, e.parents)}
        pop = e.population.name if isinstance(e, PopulationProbability) else None
        if len(worlds) != 1:
            if self.cf is None:
                raise MultiWorld(str(e))
            ch = [(v.name, {i.name: self.val(i, env, bound) for i in interventions_of(v)}, self.val(v, env, bound)) for v in e.children]
            pa = [(v.name, {i.name: self.val(i, env, bound) for i in interventions_of(v)}, self.val(v, env, bound)) for v in e.parents]
            num = self.cf(pop, ch + pa)
            if not pa:
                return num
            den = self.cf(pop, pa)
            if den == 0:
                raise Undefined("conditioning on a null counterfactual event")
            return num / den
        do = {}
        for i in next(iter(worlds)):
            x = self.val(i, env, bound)
            if i.name in do and do[i.name] != x:
                raise Undefined("inconsistent subscript")
            do[i.name] = x
        table = self.provider(pop, do)
        ch = self._assign(e.children, env, bound)
        pa = self._assign(e.parents, env, bound)
        try:
            if pa is None:
                raise ZeroDivisionError
            if ch is None:
                if pa and table.num(pa) == 0:
                    raise ZeroDivisionError
                return Fr(0)
            return table.cond(ch, pa)
        except ZeroDivisionError:
            raise Undefined("conditioning on a null event") from None
