"""C18 — counterfactual-graph construction preserves the event's probability."""

from __future__ import annotations

import itertools as itt

import networkx as nx
from hypothesis import strategies as st

from .. import cfutil, gen
from ..common import Outcome, open_regions
from ..model import FSCM
from ..y0util import build_graph, graph_key, graph_sample

ID = "C18"
RULE = (
    "Generate an ADMG (2..5 nodes) and a conjunction of 1..4 counterfactual events (several worlds, shared and distinct "
    "subscripts, factual variables, +/- value marks, reflexive subscripts, repeated base variables), plus two functional "
    "SCMs with explicit exogenous noise shared across worlds (positive by construction). make_counterfactual_graph must "
    "return (graph, event') with P(event') == P(event) for every base assignment in every model (exact), or (graph, None) "
    "only if P(event) == 0 in all drawn models and assignments; the graph must be acyclic, contain exactly the ancestors "
    "of event' and every variable of event'. The returned graph is also read as a diagram over its own nodes: any two nodes "
    "it m-separates marginally must be independent counterfactual variables in the drawn models (this is what 'the graph "
    "describes the event' amounts to for the consumer, ID*; the unchanged tree satisfies it on every case drawn). Non-trivial = >=2 worlds and at least one merge or refused merge (node count "
    "below the parallel-worlds count or event relabelled); distinct = distinct (graph, event)."
)
ASSUMPTIONS = [
    "graphs bounded to 5 nodes, events to 4 items with <=2 subscripts each, cardinality 2 (one model may use 3)",
    "two functional models per case: 'None only if probability zero in every model' is refuted by a positive witness, not proven",
]
BUDGET = {
    "quick": dict(examples=400, shards=16, seconds=200),
    "thorough": dict(examples=2500, shards=16, seconds=2400),
}
ESSENTIAL_LABELS = {t: ["worlds>=2", "merged", "inconsistent", "bidirected"] for t in ("quick", "thorough")}
REGION_REFLEXIVE = "event_has_reflexive_subscript"


@st.composite
def _case(draw, gs):
    g = draw(gs)
    items = draw(cfutil.event_items(g["nodes"], max_items=4, edges=g["di"]))
    return {"g": g, "event": items, "mseed": draw(st.integers(0, 2**32)), "max_card": draw(st.sampled_from([2, 2, 2, 3]))}


def strategy(tier):
    return st.one_of(_case(gen.admgs(2, 5)), _case(gen.admgs(2, 4, bi_densities=(3, 5), di_densities=(4, 6, 8))), _case(gen.embedded_admgs(1)))


def check(case, ignore_regions=False) -> Outcome:
    from y0.algorithm.identify.cg import make_counterfactual_graph

    g, items = case["g"], case["event"]
    out = Outcome(key=graph_key(g) + "|" + cfutil.show(items))
    feats = cfutil.features(g, items)
    labels = set(feats)
    if not ignore_regions and REGION_REFLEXIVE in open_regions(ID) and "reflexive-subscript" in feats:
        out.excluded = REGION_REFLEXIVE
        return out
    graph = build_graph(g)
    event = cfutil.build_event(items)
    out.sample = {**graph_sample(g), "event": cfutil.show(items)}

    def fail(kind, **kw):
        out.ok = False
        out.detail = {"kind": kind, "graph": g, "event": items, "event_text": cfutil.show(items), **kw}
        out.labels = sorted(labels)
        return out

    try:
        ev_obj = dict(event)
        cg, new_event = make_counterfactual_graph(graph, ev_obj)
        cg2, new_event2 = make_counterfactual_graph(graph, ev_obj)
    except Exception as e:
        return fail("make_counterfactual_graph-raised", exc=repr(e)[:300])
    if new_event2 != new_event or not (cg2 == cg and cg == cg2):
        return fail("result-changes-when-the-call-is-repeated-with-the-same-objects", first=str(new_event), second=str(new_event2))
    nworlds = len({tuple(sorted(map(tuple, it["do"]))) for it in items if it["do"]})
    if nworlds + (1 if any(not it["do"] for it in items) else 0) >= 2:
        labels.add("worlds>=2")
    new_items = None
    if new_event is None:
        labels.add("inconsistent")
    else:
        new_items = cfutil.event_from_y0(new_event)
        if set(new_event) != set(event):
            labels.add("merged")
        if not nx.is_directed_acyclic_graph(cg.directed):
            return fail("counterfactual-graph-cyclic")
        missing = [str(k) for k in new_event if k not in set(cg.nodes())]
        if missing:
            return fail("event-variable-not-a-node", missing=missing, new_event=cfutil.show(new_items))
        if set(cg.nodes()) != set(cg.ancestors_inclusive(set(new_event))):
            return fail("graph-is-not-the-ancestral-set-of-the-event", nodes=sorted(map(str, cg.nodes())), new_event=cfutil.show(new_items))
    names = sorted(cfutil.names_in(items) | (cfutil.names_in(new_items) if new_items else set()))
    for k in range(2):
        m = FSCM(g, case["mseed"] + 7919 * k, max_card=case["max_card"] if k == 0 else 2, clique_mode=bool(k))
        for vals in itt.product(*[range(m.card[n]) for n in names]):
            env = dict(zip(names, vals))
            t0 = cfutil.truth(m, items, env)
            if new_items is None:
                if t0 != 0:
                    return fail("declared-inconsistent-but-event-has-positive-probability", assignment=env, probability=str(t0), model=m.params())
            else:
                t1 = cfutil.truth(m, new_items, env)
                if t0 != t1:
                    return fail("probability-changed", assignment=env, original=str(t0), relabelled=str(t1), new_event=cfutil.show(new_items), model=m.params())
    # the returned graph read as a causal diagram over its own nodes: two nodes it separates marginally are
    # independent counterfactual variables in every model (a dropped bidirected edge between two copies of a variable
    # that share their noise shows here)
    if new_event is not None and len(cg.nodes()) >= 2:
        bad = _separated_but_dependent(cg, g, case)
        if bad:
            return fail("graph-separates-two-dependent-counterfactual-variables", new_event=cfutil.show(new_items), **bad)
    out.nontrivial = "worlds>=2" in labels and ("merged" in labels or "inconsistent" in labels)
    out.labels = sorted(labels)
    return out


def _separated_but_dependent(cg, g, case):
    from y0.dsl import CounterfactualVariable

    from ..ref_sep import SepOracle

    nodes = sorted(cg.nodes(), key=str)
    label = {n: str(n) for n in nodes}
    oracle = SepOracle([label[n] for n in nodes], [(label[u], label[v]) for u, v in cg.directed.edges()], [(label[u], label[v]) for u, v in cg.undirected.edges()], cross_check=False)

    def subs(n):
        return [(i.name, bool(i.star)) for i in n.interventions] if isinstance(n, CounterfactualVariable) else []

    pairs = [(a, b) for a, b in itt.combinations(nodes, 2) if not any(x == a.name for x, _ in subs(a)) and not any(x == b.name for x, _ in subs(b)) and oracle.separated(label[a], label[b], ())]
    if not pairs:
        return None
    snames = sorted({x for n in nodes for x, _ in subs(n)})
    for k in range(2):
        m = FSCM(g, case["mseed"] + 7919 * k, max_card=case["max_card"] if k == 0 else 2, clique_mode=bool(k))
        for vals in itt.product(*[range(m.card[n]) for n in snames]):
            env = dict(zip(snames, vals))
            for a, b in pairs:
                da = {x: cfutil.value(s_, x, env, m.card) for x, s_ in subs(a)}
                db = {x: cfutil.value(s_, x, env, m.card) for x, s_ in subs(b)}
                for va in range(m.card[a.name]):
                    pa = m.prob_event([(a.name, da, va)])
                    for vb in range(m.card[b.name]):
                        if m.prob_event([(a.name, da, va), (b.name, db, vb)]) != pa * m.prob_event([(b.name, db, vb)]):
                            return {"pair": [label[a], label[b]], "subscript_values": env, "values": [va, vb], "model": m.params(), "graph_nodes": [label[n] for n in nodes], "graph_directed": sorted((label[u], label[v]) for u, v in cg.directed.edges()), "graph_bidirected": sorted(sorted((label[u], label[v])) for u, v in cg.undirected.edges())}
    return None


LEVEL_TEXT = (
    "Generated-input search with a semantic oracle: the relabelled event's probability is compared with the original's in "
    "functional SCMs with shared exogenous noise at every base assignment, and the structural claims (acyclic, ancestral, "
    "event variables are nodes) are checked on every returned graph. Exploration is the right level for a claim over all "
    "graphs, events and models."
)
LEVEL_NOTE = "Trusts the functional-model enumeration (vf/model.py FSCM); bounded sizes; two models per case."
TECHNIQUE = "property-based testing (Hypothesis) with an exact functional-SCM oracle (multi-world enumeration)"
