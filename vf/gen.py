"""Hypothesis strategies. Every strategy yields plain JSON-able data (dicts, lists, str, int).

Graph encoding ("gcase"):
    {"nodes": [names, insertion order], "di": [[u, v], ...], "bi": [[u, v], ...]}
Edge lists are in insertion order as well.
"""

from __future__ import annotations

import itertools as itt

from hypothesis import strategies as st

NAME_POOL = ["A", "B", "C", "D", "E", "F", "G", "H", "X", "Y", "Z", "W", "M", "X1", "Y1", "Z1"]


@st.composite
def names(draw, n: int, pool=None):
    pool = pool or NAME_POOL
    return draw(st.permutations(pool))[:n]


@st.composite
def admgs(draw, min_nodes=1, max_nodes=5, pool=None, cyclic=False, bi_densities=(0, 2, 4, 6), di_densities=(2, 4, 6, 8)):
    """Random (acyclic unless ``cyclic``) directed mixed graph with isolated nodes kept.

    The hidden topological order, both densities and the insertion orders of nodes and edges are drawn.
    """
    n = draw(st.integers(min_nodes, max_nodes))
    order = draw(names(n, pool))
    pd = draw(st.sampled_from(di_densities))
    pb = draw(st.sampled_from(bi_densities))
    di, bi = [], []
    for i, j in itt.combinations(range(n), 2):
        if draw(st.integers(0, 9)) < pd:
            if cyclic and draw(st.integers(0, 3)) == 0:
                di.append([order[j], order[i]])
                if draw(st.integers(0, 3)) == 0:
                    di.append([order[i], order[j]])
            else:
                di.append([order[i], order[j]])
        if draw(st.integers(0, 9)) < pb:
            bi.append([order[i], order[j]] if draw(st.booleans()) else [order[j], order[i]])
    nodes = list(draw(st.permutations(order)))
    di = list(draw(st.permutations(di))) if di else di
    bi = list(draw(st.permutations(bi))) if bi else bi
    return {"nodes": nodes, "di": di, "bi": bi}


# small motifs planted into random graphs so deep algorithm branches are reached at a measured rate
MOTIFS = {
    "napkin": {"di": [("a", "b"), ("b", "c"), ("c", "d")], "bi": [("a", "c"), ("a", "d")]},
    "frontdoor": {"di": [("a", "b"), ("b", "c")], "bi": [("a", "c")]},
    "bow": {"di": [("a", "b")], "bi": [("a", "b")]},
    "collider_chain": {"di": [], "bi": [("a", "c"), ("c", "b")]},
    "both_edges": {"di": [("a", "b"), ("b", "c")], "bi": [("a", "b")]},
    "fig9a": {"di": [("a", "b"), ("b", "c"), ("d", "c")], "bi": [("a", "c")]},
    "tikka8": {"di": [("a", "b"), ("b", "c"), ("d", "a")], "bi": [("d", "c"), ("a", "c")]},
    "verma": {"di": [("a", "b"), ("b", "c"), ("c", "d")], "bi": [("b", "d")]},
    "iv": {"di": [("a", "b"), ("b", "c")], "bi": [("b", "c")]},
    "m": {"di": [("a", "c"), ("b", "c"), ("c", "d")], "bi": [("a", "b"), ("a", "d")]},
    # napkin followed by a two-node final district: ID goes line 7 -> line 2 -> line 6 on {d, e}
    "napkin_ext": {"di": [("a", "b"), ("b", "c"), ("c", "d"), ("d", "e")], "bi": [("a", "c"), ("a", "e"), ("d", "e")]},
    # two nested line-7 steps
    "double7": {"di": [("a", "b"), ("b", "c"), ("c", "d"), ("d", "e")], "bi": [("a", "c"), ("a", "e"), ("b", "d")]},
}


# separation-specific shapes (used by C04, C15, C20 only)
SEP_MOTIFS = {
    # the pair (x, y) has two non-nested minimal separators, {m} and {a, b}
    "two_separators": {"di": [("a", "x"), ("b", "x"), ("a", "m"), ("b", "m"), ("m", "y")], "bi": [("a", "b")]},
    # a collider whose only conditioned descendant is two steps away
    "far_collider": {"di": [("a", "m"), ("m", "n"), ("n", "z")], "bi": [("m", "b")]},
    # the only smallest separator of (a, b) is {m}, which is adjacent to neither endpoint (not even after moralisation);
    # every separator made of neighbours has two nodes
    "double_diamond": {"di": [("a", "p"), ("a", "q"), ("p", "m"), ("q", "m"), ("m", "r"), ("m", "s"), ("r", "b"), ("s", "b")], "bi": []},
}


def _motif_topo(motif):
    import networkx as nx

    d = nx.DiGraph()
    d.add_nodes_from(sorted({x for e in motif["di"] + motif["bi"] for x in e}))
    d.add_edges_from(motif["di"])
    return list(nx.lexicographical_topological_sort(d))


@st.composite
def embedded_admgs(draw, max_extra=2, pool=None, motifs=None):
    """A motif with up to ``max_extra`` extra nodes wired in at random (still acyclic)."""
    motifs = MOTIFS if motifs is None else motifs
    mname = draw(st.sampled_from(sorted(motifs)))
    motif = motifs[mname]
    mnodes = _motif_topo(motif)
    extra = draw(st.integers(0, max_extra))
    n = len(mnodes) + extra
    real = draw(names(n, pool))
    # topological order: motif nodes in a topological order of the motif, extras inserted anywhere
    slots = ["m"] * len(mnodes) + ["e"] * extra
    slots = list(draw(st.permutations(slots)))
    order, mi = [], 0
    mapping = {}
    for k, s in enumerate(slots):
        if s == "m":
            mapping[mnodes[mi]] = real[k]
            mi += 1
        order.append(real[k])
    di = [[mapping[u], mapping[v]] for u, v in motif["di"]]
    bi = [[mapping[u], mapping[v]] for u, v in motif["bi"]]
    have = {tuple(e) for e in di}
    haveb = {frozenset(e) for e in bi}
    motif_real = set(mapping.values())
    for i, j in itt.combinations(range(n), 2):
        u, v = order[i], order[j]
        if u in motif_real and v in motif_real:
            continue
        if (u, v) not in have and draw(st.integers(0, 9)) < 4:
            di.append([u, v])
        if frozenset((u, v)) not in haveb and draw(st.integers(0, 9)) < 2:
            bi.append([u, v])
    nodes = list(draw(st.permutations(order)))
    di = list(draw(st.permutations(di))) if di else di
    bi = list(draw(st.permutations(bi))) if bi else bi
    return {"nodes": nodes, "di": di, "bi": bi, "motif": mname}


def subsets(xs, min_size=0, max_size=None):
    xs = list(xs)
    if not xs:
        return st.just([])
    return st.lists(st.sampled_from(xs), unique=True, min_size=min_size, max_size=max_size if max_size is not None else len(xs)).map(sorted)


@st.composite
def labelled_partition(draw, nodes, labels, required=()):
    """Assign each node one label (or None); every label in ``required`` gets at least one node.

    Returns {label: sorted list}.  Constructive: required labels are seeded first.
    """
    nodes = list(nodes)
    perm = list(draw(st.permutations(nodes)))
    out = {lab: [] for lab in labels}
    idx = 0
    for lab in required:
        if idx >= len(perm):
            break
        out[lab].append(perm[idx])
        idx += 1
    for v in perm[idx:]:
        lab = draw(st.sampled_from([None, *labels]))
        if lab is not None:
            out[lab].append(v)
    return {k: sorted(v) for k, v in out.items()}


ODD_NAMES = ["IL-6", "CD4+", "x'", "t cell", "β2"]


def rename_nodes(g, mapping):
    r = lambda n: mapping.get(n, n)  # noqa: E731
    out = {"nodes": [r(n) for n in g["nodes"]], "di": [[r(u), r(v)] for u, v in g["di"]], "bi": [[r(u), r(v)] for u, v in g["bi"]]}
    if g.get("motif"):
        out["motif"] = g["motif"]
    return out


# names the library itself gives to auxiliary nodes it introduces (latent parents of bidirected edges in a
# latent-variable DAG are called u_0, u_1, ...); a user's graph may use them too
AUX_NAMES = ["u_0", "u_1", "u_2"]


@st.composite
def with_aux_names(draw, gs, chance=5):
    """Occasionally call one or two nodes the way the library calls the latent nodes it introduces itself."""
    g = draw(gs)
    if draw(st.integers(0, chance - 1)) != 0:
        return g
    k = draw(st.integers(1, min(2, len(g["nodes"]))))
    victims = list(draw(st.permutations(g["nodes"])))[:k]
    aux = list(draw(st.permutations(AUX_NAMES)))[:k]
    return rename_nodes(g, dict(zip(victims, aux)))


@st.composite
def with_odd_names(draw, gs, chance=4):
    """Occasionally give one or two nodes a name that is a valid variable name for y0 but not an identifier
    (hyphen, plus, quote, blank, non-ASCII letter)."""
    g = draw(gs)
    if draw(st.integers(0, chance - 1)) != 0:
        return g
    k = draw(st.integers(1, min(2, len(g["nodes"]))))
    victims = list(draw(st.permutations(g["nodes"])))[:k]
    odd = list(draw(st.permutations(ODD_NAMES)))[:k]
    return rename_nodes(g, dict(zip(victims, odd)))
