"""C13 — DSL operators and rewrite helpers are identities of probability calculus."""

from __future__ import annotations

from fractions import Fraction as Fr

from hypothesis import strategies as st

from .. import exprgen
from ..common import Outcome, SplitMix, open_regions
from ..exprsem import DEFAULT_NAMES, ambiguous_twin_binding, envs, has_worlds, make_eval
from ..sem import FreeVariable, MultiWorld, Undefined
from .c10 import kinds

ID = "C13"
RULE = (
    "Generate an operation and its arguments: a*b and a/b for expression pairs of every type pair (probability, "
    "population probability, Q-factor, product, sum, fraction, One, Zero; public or raw construction), "
    "e.marginalize(R), p.conditional(R) (probabilities of any kind; compound expressions only when they have no "
    "subscripts and no sums, where 'outcome variables' is unambiguous), Fraction.simplify, Sum.simplify on raw trees, "
    "chain_expand (reorder on/off, ordering = drawn permutation of the term's own variables or None), fraction_expand, "
    "bayes_expand, contract on generated fractions (incl. P(joint)/P(marginal) shapes, mixed populations and equal "
    "parts) and recursive_contract. Oracle: the result must denote the mathematical operation applied to the "
    "arguments' denotations for arbitrary positive tables per (population, interventions), arbitrary Q-factors and every "
    "environment (exact Fractions); chain_expand output must satisfy has_markov_postcondition with one child per "
    "factor. Non-trivial = operands are not both plain probabilities, or a rewrite changed the expression; distinct = "
    "distinct (operation, arguments)."
)
ASSUMPTIONS = [
    "expressions bounded to depth 3 over 4 names; zero-free divisors",
    "conditional() on compound expressions restricted to expressions without subscripts and sums",
    "conditional() exercised on unmarked variables only (a value-marked child is an Intervention instance, which conditional() skips by design; what it should sum over is not documented)",
    "chain_expand orderings contain the term's own (subscripted) variables; a documented ValueError otherwise is not exercised",
    "semantics per vf/sem.py",
]
BUDGET = {
    "quick": dict(examples=1500, shards=16, seconds=200),
    "thorough": dict(examples=12000, shards=16, seconds=2400),
}
OPS = ["mul", "div", "marginalize", "conditional", "frac_simplify", "sum_simplify", "chain_expand", "fraction_expand", "bayes_expand", "contract", "recursive_contract"]
ESSENTIAL_LABELS = {t: ["op:" + o for o in OPS] + ["contract:contracted", "chain:children>=3"] for t in ("quick", "thorough")}


@st.composite
def _contract_arg(draw):
    """Fractions shaped like the ones contract() acts on (and near misses)."""
    kind = draw(st.integers(0, 7))
    perm = list(draw(st.permutations(DEFAULT_NAMES)))
    k = draw(st.integers(1, 4))
    num_ch = perm[:k]
    m = draw(st.integers(1, k))
    den_ch = list(draw(st.permutations(num_ch)))[:m]
    pop_n = draw(st.sampled_from([None, None, "π1"]))
    pop_d = pop_n if kind != 1 else draw(st.sampled_from([None, "π1", "π2"]))
    do = [[perm[k], False]] if (k < 4 and kind == 2) else []
    do_d = do if draw(st.booleans()) else []
    if kind == 3:
        den_ch = list(num_ch)
    n = {"t": "P", "ch": [[c, None] for c in num_ch], "pa": [], "do": do, "pop": pop_n}
    d = {"t": "P", "ch": [[c, None] for c in den_ch], "pa": [], "do": do_d, "pop": pop_d}
    if kind == 4 and k < 4:
        d["ch"] = [[perm[k], None]]
    if kind == 5 and k < 4 and not do:
        # a variable of the numerator a second time, in another world (Y next to Y_x), one of the two in the denominator
        w = [[perm[k], draw(st.booleans())]]
        j = draw(st.integers(0, len(num_ch) - 1))
        n["ch"] = n["ch"] + [[num_ch[j], None]]
        n["vdo"] = [[] for _ in num_ch] + [w]
        n["do"] = []
        d["do"] = []
        if draw(st.booleans()) and num_ch[j] in den_ch:
            # the denominator holds the counterfactual copy instead of the factual one
            d["vdo"] = [(w if c == num_ch[j] else []) for c in den_ch]
        elif len(den_ch) >= 1:
            d["vdo"] = [[] for _ in den_ch]
    if kind in (6, 7):
        # the shapes conditional() / normalize_marginalize() / bayes_expand() produce: a probability over a SUM of (a copy
        # of) itself, the ranges being any mixture of its children, its parents and names it does not mention
        if kind == 7 and k < 4:
            n["pa"] = [[c, None] for c in perm[k : k + draw(st.integers(1, 4 - k))]]
        rs = sorted(draw(st.lists(st.sampled_from(DEFAULT_NAMES), min_size=1, max_size=3, unique=True)))
        body = dict(n, ch=list(draw(st.permutations(n["ch"]))))
        d = {"t": "sum", "rs": rs, "x": body}
        if draw(st.integers(0, 3)) == 0:
            return {"t": "frac", "n": d, "d": n}
    return {"t": "frac", "n": n, "d": d}


@st.composite
def _case(draw):
    op = draw(st.sampled_from(OPS))
    mseed = draw(st.integers(0, 2**32))
    c = {"op": op, "mseed": mseed, "raw": draw(st.booleans())}
    sub = lambda **kw: exprgen.expr_specs(depth=draw(st.sampled_from([0, 1, 2, 2, 3])), q=True, mixed_worlds=op != "conditional", **kw)  # noqa: E731
    if op == "mul":
        c["a"], c["b"] = draw(sub()), draw(sub())
    elif op == "div":
        c["a"], c["b"] = draw(sub()), draw(sub(zero=False))
    elif op == "marginalize":
        c["a"] = draw(sub())
        c["rs"] = draw(st.lists(st.sampled_from(DEFAULT_NAMES), min_size=1, max_size=3, unique=True))
    elif op == "conditional":
        if draw(st.booleans()):
            c["a"] = draw(exprgen.prob_specs(marks=False))
        else:
            c["a"] = draw(exprgen.expr_specs(depth=draw(st.sampled_from([1, 2])), do=False, marks=False, zero=False, q=False, nonfree_ranges=False))
        c["rs"] = draw(st.lists(st.sampled_from(DEFAULT_NAMES), min_size=0, max_size=3, unique=True))
    elif op == "frac_simplify":
        xs = [draw(sub(zero=False)) for _ in range(draw(st.integers(1, 3)))]
        shared = draw(st.lists(st.sampled_from(xs), min_size=0, max_size=2))
        num = xs + [draw(sub()) for _ in range(draw(st.integers(0, 1)))]
        den = shared + [draw(sub(zero=False)) for _ in range(draw(st.integers(0, 2)))]
        mk = lambda ys: ys[0] if len(ys) == 1 else {"t": "prod", "xs": ys} if ys else {"t": "one"}  # noqa: E731
        c["a"] = {"t": "frac", "n": mk(list(draw(st.permutations(num)))), "d": mk(list(draw(st.permutations(den))))}
        c["raw"] = True
    elif op == "sum_simplify":
        body = draw(st.one_of(exprgen.prob_specs(mixed_worlds=True), sub()))
        c["a"] = {"t": "sum", "rs": sorted(draw(st.lists(st.sampled_from(DEFAULT_NAMES), min_size=1, max_size=4, unique=True))), "x": body}
        c["raw"] = True
    elif op in ("chain_expand", "fraction_expand", "bayes_expand"):
        c["a"] = draw(exprgen.prob_specs(mixed_worlds=True))
        c["reorder"] = draw(st.booleans())
        c["ordering"] = draw(st.sampled_from(["none", "own", "own+extra"]))
        c["shuffle"] = draw(st.integers(0, 2**16))
    elif op == "contract":
        c["a"] = draw(st.one_of(_contract_arg(), sub()))
    elif op == "recursive_contract":
        inner = draw(_contract_arg())
        wrap = draw(st.integers(0, 3))
        if wrap == 0:
            c["a"] = inner
        elif wrap == 1:
            c["a"] = {"t": "sum", "rs": [draw(st.sampled_from(DEFAULT_NAMES))], "x": inner}
        elif wrap == 2:
            c["a"] = {"t": "prod", "xs": [inner, draw(sub())]}
        else:
            c["a"] = {"t": "frac", "n": inner, "d": draw(_contract_arg())}
        c["raw"] = True
    if draw(st.integers(0, 3)) == 0:
        c["names"] = list(draw(st.permutations(LONG_NAMES)))[: len(DEFAULT_NAMES)]
    return c


def strategy(tier):
    return _case()


def _has(s, kind):
    return kind in kinds(s)


def _vec(ev, e, names, card):
    out = []
    for env in envs(names, card):
        try:
            out.append(ev.ev(e, env))
        except Undefined:
            out.append(None)
    return out


LONG_NAMES = ["X1", "Y1", "Z1", "W2", "AB", "Zz", "B10", "β1", "x_y"]


def _present(names, k, universe=DEFAULT_NAMES):
    """A VariableHint for the named variables, the ways a caller may write one: variables, names, value-marked or
    subscripted versions of the variables (only the base variable counts), a bare singleton."""
    from y0.dsl import Variable

    k = k % 7
    if k == 0 or not names:
        return [Variable(n) for n in names]
    if k == 6:
        return names[0] if len(names) == 1 else tuple(names)  # a bare name is a VariableHint too
    if k == 1:
        return list(names)
    if k == 2:
        return [-Variable(n) for n in names]
    if k == 3:
        other = next((x for x in universe if x not in names), None)
        return [Variable(n) @ -Variable(other) if other else Variable(n) for n in names]
    if k == 4:
        return tuple([+Variable(names[0])] + [Variable(n) for n in names[1:]])
    return Variable(names[0]) if len(names) == 1 else {Variable(n) for n in names}


def check(case, ignore_regions=False) -> Outcome:
    from y0.dsl import Fraction, One, Probability, Product, Sum, Variable, Zero
    from y0.mutate.chain import bayes_expand, chain_expand, fraction_expand
    from y0.mutate.contract import contract, recursive_contract
    from y0.predicates import has_markov_postcondition

    op = case["op"]
    out = Outcome(key=str({k: v for k, v in case.items() if k != "mseed"}))
    labels = {"op:" + op}
    build = exprgen.build_raw if case.get("raw") else exprgen.build_public
    names = list(DEFAULT_NAMES)
    if case.get("names"):
        # the same case over names of several characters (a bare string argument is ONE name, not a sequence of letters)
        names = list(case["names"])
        case = {**exprgen.rename_spec({k: v for k, v in case.items() if k != "names"}, dict(zip(DEFAULT_NAMES, names)), {}), "names": names}
        labels.add("names-of-several-characters")
    # arguments with multi-world terms are read in a functional model with shared noise; there, assignments at which the
    # result is undefined (structural zeros of counterfactual events) are skipped like those where the argument is
    worlds = has_worlds(case)
    if worlds:
        labels.add("multi-world-term")
    ev, card = make_eval(names, case["mseed"], None, worlds=worlds)
    allenvs = list(envs(names, card))
    try:
        a = build(case["a"])
        b = build(case["b"]) if "b" in case else None
    except ZeroDivisionError:
        out.labels = ["construction-divides-by-zero(skipped)"]
        return out

    def fail(kind, **kw):
        out.ok = False
        out.detail = {"kind": kind, "op": op, "a": str(a), "b": None if b is None else str(b), "case": case, **kw}
        out.labels = sorted(labels)
        return out

    def val(e, env):
        try:
            return ev.ev(e, env)
        except Undefined:
            return None

    def compare(result, want_fn, what):
        """want_fn(env) -> Fraction or None (undefined: skipped)."""
        if worlds and any(x is not None and ambiguous_twin_binding(x) for x in (a, b, result)):
            labels.add("sum-binds-a-name-present-in-two-worlds(outside the domain)")
            return None
        for env in allenvs:
            want = want_fn(env)
            if want is None:
                continue
            try:
                got = val(result, env)
            except (FreeVariable, MultiWorld, TypeError) as ex:
                return fail("result-not-evaluable", result=str(result), exc=repr(ex)[:200])
            if got is None and worlds:
                continue
            if got != want:
                return fail(what, result=str(result), assignment=env, result_value=str(got), expected=str(want))
        return None

    def sum_over(e, rs, env):
        import itertools as itt

        rs = sorted(rs)
        tot = Fr(0)
        for vals in itt.product(*[range(card[r]) for r in rs]):
            env2 = dict(env)
            env2.update(zip(rs, vals))
            v = val(e, env2)
            if v is None:
                return None
            tot += v
        return tot

    labels.add("types:" + type(a).__name__ + ("," + type(b).__name__ if b is not None else ""))
    try:
        if op == "mul":
            r = a * b
            bad = compare(r, lambda env: None if val(a, env) is None or val(b, env) is None else val(a, env) * val(b, env), "product-differs")
            out.nontrivial = not (type(a) is Probability and type(b) is Probability)
        elif op == "div":
            r = a / b
            bad = compare(r, lambda env: None if val(a, env) is None or not val(b, env) else val(a, env) / val(b, env), "quotient-differs")
            out.nontrivial = not (type(a) is Probability and type(b) is Probability)
        elif op == "marginalize":
            rs = case["rs"]
            r = a.marginalize(_present(rs, case["mseed"], names))
            bad = compare(r, lambda env: sum_over(a, rs, env), "marginal-differs")
            out.nontrivial = True
        elif op == "conditional":
            rs = case["rs"]
            spec = case["a"]
            if spec["t"] == "P":
                outcome_names = {n for n, _ in spec["ch"] + spec["pa"]}
            else:
                outcome_names = exprgen.spec_names(spec)
            comp = sorted(outcome_names - set(rs))
            r = a.conditional(_present(rs, case["mseed"] // 7, names))

            def want(env):
                d = sum_over(a, comp, env)
                v = val(a, env)
                return None if v is None or not d else v / d

            bad = compare(r, want, "conditional-differs")
            out.nontrivial = True
        elif op == "frac_simplify":
            r = a.simplify() if isinstance(a, Fraction) else a
            bad = compare(r, lambda env: val(a, env), "simplify-changed-meaning")
            out.nontrivial = r != a
        elif op == "sum_simplify":
            r = a.simplify() if isinstance(a, Sum) else a
            bad = compare(r, lambda env: val(a, env), "simplify-changed-meaning")
            out.nontrivial = r != a
            if r != a:
                labels.add("sum:simplified")
        elif op == "chain_expand":
            own = list(a.children) + list(a.parents)
            rng = SplitMix(case["shuffle"])
            ordering = None
            if case["ordering"] != "none":
                ordering = rng.shuffle(own)
                if case["ordering"] == "own+extra":
                    ordering = ordering + [Variable("E")]
                if case["shuffle"] % 3 == 0 and all(type(v) is Variable and v.star is None for v in ordering):
                    # the ordering is typed Iterable[str | Variable]: plain names, as a one-shot iterator
                    ordering = iter([v.name for v in ordering])
            r = chain_expand(a, reorder=case["reorder"], ordering=ordering)
            bad = compare(r, lambda env: val(a, env), "chain-expansion-changed-meaning")
            if bad is None:
                factors = r.expressions if isinstance(r, Product) else (r,)
                if not has_markov_postcondition(r) or any(not isinstance(f, Probability) or len(f.children) != 1 for f in factors):
                    bad = fail("chain-expansion-not-single-child-kernels", result=str(r))
                elif len(factors) != len(a.children):
                    bad = fail("chain-expansion-wrong-number-of-factors", result=str(r))
            if len(a.children) >= 3:
                labels.add("chain:children>=3")
            out.nontrivial = len(a.children) >= 2
        elif op == "fraction_expand":
            r = fraction_expand(a)
            bad = compare(r, lambda env: val(a, env), "fraction-expansion-changed-meaning")
            out.nontrivial = bool(a.parents)
        elif op == "bayes_expand":
            import warnings

            with warnings.catch_warnings():
                warnings.simplefilter("ignore")
                r = bayes_expand(a)
            bad = compare(r, lambda env: val(a, env), "bayes-expansion-changed-meaning")
            out.nontrivial = bool(a.parents)
        elif op == "contract":
            r = contract(a)
            bad = compare(r, lambda env: val(a, env), "contract-changed-meaning")
            if r != a:
                labels.add("contract:contracted")
            out.nontrivial = r != a
        elif op == "recursive_contract":
            r = recursive_contract(a)
            bad = compare(r, lambda env: val(a, env), "recursive-contract-changed-meaning")
            if r != a:
                labels.add("contract:contracted")
            out.nontrivial = r != a
        else:
            raise ValueError(op)
    except (FreeVariable, MultiWorld) as ex:
        return fail("argument-not-evaluable", exc=repr(ex))
    except Exception as ex:
        return fail("operation-raised", exc=repr(ex)[:300])
    if bad is not None:
        return bad
    out.sample = {"op": op, "a": str(a), "b": None if b is None else str(b), "result": str(r)[:300]}
    out.labels = sorted(labels)
    return out


LEVEL_TEXT = (
    "Generated-input search with a denotational oracle: every operator overload and rewrite helper is applied to generated "
    "arguments of every type pair and the result is compared, exactly and at every environment, with the mathematical "
    "operation on the arguments' values under arbitrary positive distributions. Exploration is the right level for "
    "identities over an unbounded grammar with ~25 dispatch branches."
)
LEVEL_NOTE = "Trusts vf/sem.py; expressions bounded to depth 3 over 4 names; conditional() checked only where 'outcome variables' is unambiguous."
TECHNIQUE = "property-based testing (Hypothesis), denotational oracle with exact rational arithmetic"
