"""Counterfactual events as JSON-able data, their y0 objects, and their truth in a functional SCM.

Event item: {"v": name, "do": [[name, star], ...], "val": star}   (star: False = the base value '-', True = '+')
An event is a list of items with pairwise distinct (v, do) keys.
Reading: a base assignment ``env`` (name -> value) gives '-N' the value env[N] and '+N' the successor (env[N]+1) mod |N|.
"""

from __future__ import annotations

from fractions import Fraction

from hypothesis import strategies as st


def value(star, name, env, card):
    return (env[name] + 1) % card[name] if star else env[name]


@st.composite
def event_items(draw, nodes, max_items=3, max_subs=2, plus=True, reflexive=True, min_items=1, edges=None):
    """Two modes: independent items, or items spread over a few drawn worlds (shared subscripts), so that the same
    variable is seen in several worlds together with its parents / children."""
    nodes = sorted(nodes)
    n = draw(st.integers(min_items, max_items))
    items, seen = [], set()
    pflag = lambda: (draw(st.integers(0, 4)) == 0) if plus else False  # noqa: E731
    if edges and max_items >= 3 and draw(st.integers(0, 2)) == 0:
        # family mode: a parent seen factually and in a world, and its child in that world (and maybe factually):
        # the shape on which "same function, same parents' values" (Lemma 24) is decided by observed values
        p, c = draw(st.sampled_from(sorted(map(tuple, edges))))
        others = [x for x in nodes if x not in (p, c)] or [p]
        w = [[draw(st.sampled_from(others)), pflag()]]
        fam = [
            {"v": p, "do": [], "val": pflag()},
            {"v": p, "do": w, "val": draw(st.booleans()) if plus else False},
            {"v": c, "do": w, "val": pflag()},
        ]
        if max_items >= 4 and draw(st.booleans()):
            fam.append({"v": c, "do": [], "val": pflag()})
        out, seen2 = [], set()
        for it in fam:
            if not reflexive:
                it["do"] = [x for x in it["do"] if x[0] != it["v"]]
            key = (it["v"], tuple(map(tuple, it["do"])))
            if key not in seen2:
                seen2.add(key)
                out.append(it)
        return out
    if edges and max_items >= 2 and draw(st.integers(0, 4)) == 0:
        # twin mode (probability-of-necessity shape): one variable in two worlds that differ in the VALUE of one
        # subscript, optionally with a shared second subscript and a third, unrelated item
        p, c = draw(st.sampled_from(sorted(map(tuple, edges))))
        shared = []
        rest = [x for x in nodes if x not in (p, c)]
        if rest and max_subs >= 2 and draw(st.integers(0, 2)) == 0:
            shared = [[draw(st.sampled_from(rest)), pflag()]]
        first = bool(draw(st.booleans())) if plus else False
        tw = [
            {"v": c, "do": sorted([[p, first]] + shared), "val": pflag()},
            {"v": c, "do": sorted([[p, (not first) if plus else False]] + shared) if plus else shared, "val": draw(st.booleans()) if plus else False},
        ]
        if max_items >= 3 and draw(st.booleans()):
            v3 = draw(st.sampled_from(nodes))
            do3 = [] if draw(st.booleans()) else [x for x in tw[0]["do"] if reflexive or x[0] != v3]
            if rest and draw(st.integers(0, 2)) == 0:
                # a third world: the same variable once more, under another variable's intervention (or both)
                v3 = c
                q = draw(st.sampled_from(rest))
                do3 = sorted([[q, pflag()]] + ([[p, first]] if draw(st.booleans()) else []))
            if (v3, tuple(map(tuple, do3))) not in {(t["v"], tuple(map(tuple, t["do"]))) for t in tw}:
                tw.append({"v": v3, "do": do3, "val": pflag()})
        return tw
    world_mode = draw(st.booleans())
    worlds = [[]]
    if world_mode:
        for _ in range(draw(st.sampled_from([1, 2, 2, 3]))):
            k = draw(st.integers(1, max(1, min(max_subs, len(nodes)))))
            subs = sorted(draw(st.lists(st.sampled_from(nodes), min_size=k, max_size=k, unique=True)))
            worlds.append([[s, pflag()] for s in subs])
    for _ in range(n):
        v = draw(st.sampled_from(nodes))
        if world_mode:
            do = [list(x) for x in draw(st.sampled_from(worlds))]
            if not reflexive:
                do = [x for x in do if x[0] != v]
        else:
            k = draw(st.sampled_from([0, 1, 1, 2])) if max_subs >= 2 else draw(st.integers(0, max_subs))
            pool = nodes if reflexive else [x for x in nodes if x != v]
            subs = sorted(draw(st.lists(st.sampled_from(pool), min_size=min(k, len(pool)), max_size=min(k, len(pool)), unique=True))) if pool else []
            do = [[s, pflag()] for s in subs]
        key = (v, tuple(map(tuple, do)))
        if key in seen:
            continue
        seen.add(key)
        items.append({"v": v, "do": do, "val": pflag()})
    return items


def item_key(it):
    return (it["v"], tuple(sorted(map(tuple, it["do"]))))


def build_variable(it):
    """The event key: a (counterfactual) variable without value."""
    from y0.dsl import Variable

    v = Variable(it["v"])
    if it["do"]:
        return v @ [(+Variable(n) if s else -Variable(n)) for n, s in it["do"]]
    return v


def build_value(it):
    from y0.dsl import Variable

    return +Variable(it["v"]) if it["val"] else -Variable(it["v"])


def build_event(items):
    return {build_variable(it): build_value(it) for it in items}


def event_from_y0(event):
    """Inverse of build_event for events returned by y0 (keys may be plain or counterfactual variables)."""
    from y0.dsl import CounterfactualVariable

    items = []
    for k, v in event.items():
        do = sorted([i.name, bool(i.star)] for i in k.interventions) if isinstance(k, CounterfactualVariable) else []
        items.append({"v": k.name, "do": do, "val": bool(v.star), "value_name": v.name})
    return items


def pairs_from_y0(pairs):
    """[(variable, value)] lists as used by the counterfactual-transport code -> items."""
    from y0.dsl import CounterfactualVariable

    items = []
    for k, v in pairs:
        do = sorted([i.name, bool(i.star)] for i in k.interventions) if isinstance(k, CounterfactualVariable) else []
        items.append({"v": k.name, "do": do, "val": None if v is None else bool(v.star), "value_name": None if v is None else v.name})
    return items


def concrete(items, env, card):
    """[(name, do-dict, value)] for FSCM.prob_event; None if some item's subscripts are contradictory."""
    out = []
    for it in items:
        do = {}
        for n, s in it["do"]:
            x = value(s, n, env, card)
            if n in do and do[n] != x:
                return None
            do[n] = x
        vn = it.get("value_name") or it["v"]
        out.append((it["v"], do, value(it["val"], vn, env, card)))
    return out


def truth(fscm, items, env) -> Fraction:
    c = concrete(items, env, fscm.card)
    if c is None:
        return Fraction(0)
    return fscm.prob_event(c)


def names_in(items):
    s = set()
    for it in items:
        s.add(it["v"])
        s.update(n for n, _ in it["do"])
        if it.get("value_name"):
            s.add(it["value_name"])
    return s


def features(g, items):
    f = set()
    if any(it["val"] for it in items) or any(s for it in items for _, s in it["do"]):
        f.add("plus-mark")
    names = [it["v"] for it in items]
    if len(set(names)) < len(names):
        f.add("repeated-variable")
        for a in items:
            for b in items:
                if a["v"] == b["v"] and {n for n, _ in a["do"]} == {n for n, _ in b["do"]} and sorted(map(tuple, a["do"])) != sorted(map(tuple, b["do"])):
                    f.add("twin-worlds")
    if any(it["v"] in [n for n, _ in it["do"]] for it in items):
        f.add("reflexive-subscript")
    worlds = {tuple(sorted(map(tuple, it["do"]))) for it in items}
    f.add(f"worlds={len(worlds)}")
    if len([w for w in worlds if w]) >= 3:
        f.add("three-nonfactual-worlds")
    if g["bi"]:
        f.add("bidirected")
    return f


def show(items):
    def one(it):
        sub = ",".join(("+" if s else "-") + n.lower() for n, s in it["do"])
        val = ("+" if it["val"] else "-") + (it.get("value_name") or it["v"]).lower() if it["val"] is not None else "?"
        return f"{it['v']}" + (f"_{{{sub}}}" if sub else "") + f"={val}"

    return " & ".join(one(it) for it in items)
