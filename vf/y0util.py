"""Bridges between JSON-able cases and y0 objects."""

from __future__ import annotations

from y0.dsl import Variable
from y0.graph import NxMixedGraph


def V(name: str) -> Variable:
    return Variable(name)


def build_graph(g: dict) -> NxMixedGraph:
    return NxMixedGraph.from_edges(
        nodes=[V(n) for n in g["nodes"]],
        directed=[(V(u), V(v)) for u, v in g["di"]],
        undirected=[(V(u), V(v)) for u, v in g["bi"]],
    )


def reinsert(g: dict) -> dict:
    """The same graph presented in a different insertion order (and flipped bidirected endpoints)."""
    return {
        "nodes": list(reversed(g["nodes"])),
        "di": [list(e) for e in reversed(g["di"])],
        "bi": [[v, u] for u, v in reversed(g["bi"])],
    }


def graph_key(g: dict) -> str:
    return "N:%s|D:%s|B:%s" % (
        ",".join(sorted(g["nodes"])),
        ";".join(sorted(f"{u}>{v}" for u, v in g["di"])),
        ";".join(sorted("~".join(sorted(e)) for e in g["bi"])),
    )


def graph_sample(g: dict) -> dict:
    return {"nodes": g["nodes"], "directed": [f"{u}->{v}" for u, v in g["di"]], "bidirected": [f"{u}<->{v}" for u, v in g["bi"]]}


def snapshot(graph: NxMixedGraph):
    return (
        list(graph.nodes()),
        list(graph.directed.edges()),
        list(graph.undirected.edges()),
    )
