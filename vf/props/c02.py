"""C02 — ID verdicts are total, complete and side-effect free."""

from __future__ import annotations

import itertools as itt

from hypothesis import strategies as st

from .. import gen
from ..common import Outcome
from ..ref_id import identifiable
from ..y0util import V, build_graph, graph_key, graph_sample, reinsert, snapshot

ID = "C02"
RULE = (
    "Generate an ADMG (1..7 nodes; biased to isolated nodes, treatments that are not ancestors of outcomes, many "
    "districts; motif-planted variants) and disjoint non-empty X, Y. Run identify_outcomes and identify(Identification). "
    "(a) totality: the only admissible outcomes are an Expression / None (resp. Unidentifiable); (b) verdict equals an "
    "independent reference (Tian-Pearl/Huang-Valtorta c-component criterion cross-checked against a set-level "
    "Shpitser-Pearl recursion; the reference's 'identifiable' claims are certified numerically in the self-check); "
    "(c) purity: node list, both edge lists and the query sets/objects are snapshotted before and compared after, and a "
    "second call (and a call on an insertion-order-permuted copy, and on the same graph grown incrementally with add_* calls "
    "interleaved with read-only queries) gives the same verdict / equal estimand. One case in thirty repeats the query on the graph with 60..2500 extra nodes "
    "(a chain above or below a node, many parents / children, isolated nodes; no bidirected edges, so the verdict is unchanged) under the interpreter's default "
    "recursion headroom. Exhaustive over "
    "all ADMGs on 3 labelled nodes x all (X,Y). Non-trivial = graph has >=1 bidirected edge and the query survives "
    "lines 1-3 (a hedge test or c-component decomposition is reached) or the graph has an isolated node / a "
    "non-ancestor treatment; distinct = distinct (graph, X, Y)."
)
ASSUMPTIONS = [
    "graphs bounded to 7 nodes (plus up to 2500 structurally irrelevant extra nodes in the large-graph variant)",
    "reference verdict: two independent set-level procedures that must agree (disagreement = harness error); its positive claims are certified numerically on random models in the self-check",
]
BUDGET = {
    "quick": dict(examples=800, shards=16, seconds=200, exhaustive=True, exhaustive_shards=8),
    "thorough": dict(examples=4000, shards=16, seconds=2400, exhaustive=True, exhaustive_shards=16),
}
ESSENTIAL_LABELS = {t: ["unidentifiable", "identifiable", "isolated-node", "treatment-not-ancestor", "districts>=3"] for t in ("quick", "thorough")}
BIG_SHAPES = ["chain-above", "chain-below", "parents", "children", "isolated"]
EXHAUSTIVE_NOTE = "all ADMGs on 3 labelled nodes A,B,C x all ordered pairs of disjoint non-empty (X,Y)"


@st.composite
def _case(draw, gs):
    g = draw(gs)
    part = draw(gen.labelled_partition(g["nodes"], ["X", "Y"], required=["X", "Y"]))
    c = {"g": g, "X": part["X"], "Y": part["Y"]}
    if draw(st.integers(0, 29)) == 0:
        # 'any number of nodes': the same query on the graph with a long tail of extra nodes attached.  Extra ancestors
        # of an outcome that are not cut off by a treatment cost ID quadratic time (one recursive call per singleton
        # district), so the long versions of 'chain-above' / 'parents' hang on a treatment and the free ones stay short.
        shape = draw(st.sampled_from(BIG_SHAPES))
        if shape in ("chain-above", "parents"):
            if draw(st.booleans()):
                c["big"] = {"shape": shape, "n": draw(st.sampled_from([1200, 1600])), "anchor": draw(st.sampled_from(sorted(part["X"])))}
            else:
                c["big"] = {"shape": shape, "n": draw(st.sampled_from([60, 120])), "anchor": draw(st.sampled_from(sorted(g["nodes"])))}
        else:
            c["big"] = {"shape": shape, "n": draw(st.sampled_from([1200, 2500])), "anchor": draw(st.sampled_from(sorted(g["nodes"])))}
    return c


def strategy(tier):
    return st.one_of(
        _case(gen.with_odd_names(gen.admgs(2, 7), 6)),
        _case(gen.admgs(3, 7, bi_densities=(1, 2, 3), di_densities=(1, 2, 3))),  # sparse: isolated nodes, many districts
        _case(gen.admgs(3, 6, bi_densities=(4, 6), di_densities=(4, 6))),
        _case(gen.embedded_admgs(3)),
    )


def exhaustive(tier):
    from .c04 import exhaustive as graphs

    for c in graphs(tier):
        nodes = c["g"]["nodes"]
        for lab in itt.product(["X", "Y", None], repeat=len(nodes)):
            xs = [n for n, l in zip(nodes, lab) if l == "X"]
            ys = [n for n, l in zip(nodes, lab) if l == "Y"]
            if xs and ys:
                yield {"g": c["g"], "X": xs, "Y": ys}


def selfcheck():
    """Certify the reference: numeric ID reproduces the truth wherever the reference says 'identifiable'."""
    import numpy as np

    from ..common import HarnessError, SplitMix
    from ..model import SCM
    from ..ref_id import Unident, numeric_id

    rng = SplitMix(20240917)
    motifs = sorted(gen.MOTIFS)
    done = 0
    for k in range(40):
        m = gen.MOTIFS[motifs[k % len(motifs)]]
        nodes = sorted({x for e in m["di"] + m["bi"] for x in e})
        g = {"nodes": nodes, "di": [list(e) for e in m["di"]], "bi": [list(e) for e in m["bi"]]}
        perm = rng.shuffle(nodes)
        xs, ys = [perm[0]], [perm[1]]
        if len(perm) > 2 and rng.below(2):
            ys.append(perm[2])
        ref = identifiable(g["nodes"], g["di"], g["bi"], xs, ys)
        scm = SCM(g, rng.next() % 2**32)
        try:
            arr, names = numeric_id(g["nodes"], g["di"], g["bi"], xs, ys, scm.joint({}))
            num_ok = True
        except Unident:
            num_ok = False
        if num_ok != ref:
            raise HarnessError(f"numeric reference ID and set-level verdict disagree on {g} X={xs} Y={ys}")
        if num_ok:
            for vals in itt.product(*[range(scm.card[n]) for n in names]):
                env = dict(zip(names, vals))
                truth = scm.joint({x: env[x] for x in xs}).prob({y: env[y] for y in ys})
                ix = tuple(env[n] if arr.shape[i] > 1 else 0 for i, n in enumerate(names))
                if arr[ix] != truth:
                    raise HarnessError(f"numeric reference ID gives a wrong value on {g} X={xs} Y={ys} at {env}: {arr[ix]} vs {truth}")
            done += 1
    if done < 5:
        raise HarnessError("reference self-check exercised too few identifiable cases")


def check(case) -> Outcome:
    from y0.algorithm.identify import Identification, Query, Unidentifiable, identify, identify_outcomes
    from y0.dsl import Expression

    g, xs, ys = case["g"], case["X"], case["Y"]
    graph = build_graph(g)
    out = Outcome(key=f"{graph_key(g)}|X={','.join(xs)}|Y={','.join(ys)}", sample={**graph_sample(g), "X": xs, "Y": ys})
    labels = {f"n={len(g['nodes'])}"}
    ref = identifiable(g["nodes"], g["di"], g["bi"], xs, ys)
    labels.add("identifiable" if ref else "unidentifiable")
    touched = {x for e in g["di"] + g["bi"] for x in e}
    iso = bool(set(g["nodes"]) - touched)
    if iso:
        labels.add("isolated-node")
    from ..ref_id import G as RG

    rg = RG(g["nodes"], g["di"], g["bi"])
    nd = len(rg.districts())
    labels.add("districts>=3" if nd >= 3 else f"districts={nd}")
    non_anc = bool(set(xs) - rg.an(ys))
    if non_anc:
        labels.add("treatment-not-ancestor")

    def fail(kind, **kw):
        out.ok = False
        out.detail = {"kind": kind, "graph": g, "X": xs, "Y": ys, "reference_identifiable": ref, **kw}
        out.labels = sorted(labels)
        return out

    before = snapshot(graph)
    xset, yset = {V(x) for x in xs}, {V(y) for y in ys}
    from y0.algorithm.identify import id_std

    from ..y0util import ReentryGuard, StepBudgetExceeded, identification_key

    try:
        with ReentryGuard(id_std, "identify", identification_key) as tr:
            r1 = identify_outcomes(graph, xset, yset)
    except StepBudgetExceeded as e:
        return fail("did-not-terminate-within-step-budget", exc=str(e))
    except Exception as e:
        return fail("identify_outcomes-raised", exc=repr(e)[:300])
    ncalls = tr.calls
    labels.add(f"recursion-depth={tr.max_depth}")
    labels.add("identify-calls:" + ("0-5" if ncalls <= 5 else "6-30" if ncalls <= 30 else "31-300" if ncalls <= 300 else ">300"))
    if r1 is not None and not isinstance(r1, Expression):
        return fail("identify_outcomes-returned-non-expression", type=str(type(r1)))
    if snapshot(graph) != before:
        return fail("graph-mutated-by-identify_outcomes")
    if xset != {V(x) for x in xs} or yset != {V(y) for y in ys}:
        return fail("query-sets-mutated")
    if (r1 is not None) != ref:
        return fail("verdict-differs-from-reference", y0_identifiable=r1 is not None, estimand=None if r1 is None else r1.to_y0())
    # low-level entry point with caller-owned objects
    query = Query(outcomes=set(yset), treatments=set(xset))
    ident = Identification(query=query, graph=graph)
    est0 = ident.estimand
    ig0 = snapshot(ident.graph)
    try:
        with ReentryGuard(id_std, "identify", identification_key):
            r2 = identify(ident)
    except Unidentifiable:
        r2 = None
    except StepBudgetExceeded as e:
        return fail("did-not-terminate-within-step-budget", exc=str(e))
    except Exception as e:
        return fail("identify-raised-other-than-Unidentifiable", exc=repr(e)[:300])
    if (r2 is None) != (r1 is None):
        return fail("identify-and-identify_outcomes-disagree")
    if query.outcomes != yset or query.treatments != xset or query.conditions != set() or ident.query is not query:
        return fail("query-object-mutated")
    if snapshot(graph) != before or snapshot(ident.graph) != ig0 or ident.estimand != est0:
        return fail("identification-object-mutated")
    # determinism / insertion order
    try:
        with ReentryGuard(id_std, "identify", identification_key):
            r3 = identify_outcomes(graph, xset, yset)
            r4 = identify_outcomes(build_graph(reinsert(g)), xset, yset)
    except Exception as e:
        return fail("second-call-raised", exc=repr(e)[:300])
    if (r3 is None) != (r1 is None) or (r4 is None) != (r1 is None):
        return fail("verdict-not-stable", second=r3 is not None, reinserted=r4 is not None)
    if r1 is not None and r3 != r1:
        return fail("estimand-not-deterministic", first=r1.to_y0(), second=r3.to_y0())
    # identifiability is a property of (G, X, Y) alone: a graph grown step by step with add_* calls and read-only
    # queries in between must give the same verdict as the graph built in one go
    from ..y0util import build_graph_incremental

    try:
        ginc = build_graph_incremental(g)
        with ReentryGuard(id_std, "identify", identification_key):
            r5 = identify_outcomes(ginc, xset, yset)
    except Exception as e:
        return fail("incrementally-built-graph-raised", exc=repr(e)[:300])
    if not (ginc == graph and graph == ginc):
        return fail("incrementally-built-graph-differs-from-from_edges")
    if (r5 is None) != (r1 is None):
        return fail("verdict-depends-on-how-the-graph-object-was-built", one_go=r1 is not None, incremental=r5 is not None)
    big = case.get("big")
    if big:
        # the extra nodes carry no bidirected edge: hedges, and therefore the verdict, are those of the small graph
        from y0.graph import NxMixedGraph

        from ..y0util import enlarge, user_recursion_limit

        gb = enlarge(g, big["shape"], big["n"], big["anchor"])
        labels.add("large-graph:" + big["shape"])
        try:
            graph_b = NxMixedGraph.from_str_edges(nodes=gb["nodes"], directed=[tuple(e) for e in gb["di"]], undirected=[tuple(e) for e in gb["bi"]])
            with user_recursion_limit():
                rb = identify_outcomes(graph_b, xset, yset)
        except Exception as e:
            return fail("raised-on-large-graph", big=big, exc=repr(e)[:300])
        if (rb is not None) != ref:
            return fail("verdict-differs-on-large-graph", big=big, y0_identifiable=rb is not None)
    out.nontrivial = (bool(g["bi"]) and (not ref or nd >= 2)) or iso or non_anc
    out.labels = sorted(labels)
    return out


LEVEL_TEXT = (
    "Generated-input search: verdicts of ID on thousands of random/motif-planted ADMGs (<=7 nodes) and on ALL ADMGs on 3 "
    "labelled nodes with all queries are compared with an independent, self-certified reference verdict; every call is also "
    "checked for totality, purity of the caller's objects and determinism. Exploration is the right level: identifiability "
    "is decidable from (G,X,Y) by a cheap independent procedure."
)
LEVEL_NOTE = "Trusts the reference verdict (two independent set-level procedures that must agree, positive claims certified numerically); graphs bounded to 7 nodes."
TECHNIQUE = "property-based testing (Hypothesis) + exhaustive small-scope enumeration; differential against a reference identifiability criterion, snapshot-based purity checks"
