"""C01 — ID estimands equal the true interventional distribution."""

from __future__ import annotations

import itertools as itt

from hypothesis import strategies as st

from .. import gen
from ..common import Outcome
from ..model import SCM
from ..sem import Evaluator, FreeVariable, MultiWorld, Undefined
from ..y0util import CallTrace, V, build_graph, graph_key, graph_sample, one_or_many

ID = "C01"
RULE = (
    "Generate an ADMG (2..6 nodes quick, ..7 thorough; isolated nodes kept; random or motif-planted: napkin, front-door, "
    "bow, Verma, IV, ...), disjoint non-empty X, Y, and two positive discrete SCMs compatible with it (one latent per "
    "bidirected edge or one shared latent per bidirected clique; cardinalities 2..3; integer weights). Call "
    "identify_outcomes. When an estimand comes back, evaluate it with the denotational evaluator on the model's "
    "observational joint for EVERY full assignment of the observed variables and compare (exact Fractions) with "
    "P(Y=y | do(X=x)) obtained by truncated factorisation with latents summed out; a dependence on a free variable "
    "outside X u Y therefore shows as a mismatch. Non-trivial = estimand returned and at least one of lines 3/4/7 "
    "fired or the estimand contains a sum or quotient; distinct = distinct (graph, X, Y)."
)
ASSUMPTIONS = [
    "graphs bounded to 7 nodes, cardinalities to 3, two models per query (a wrong estimand that is right on all models of these sizes is not seen)",
    "evaluator semantics: P(c|p) = joint(c,p)/joint(p) on the observational joint; Sum ranges over all values",
    "truth: truncated factorisation of the generating SCM, exact rational arithmetic",
]
BUDGET = {
    "quick": dict(examples=350, shards=16, seconds=200),
    "thorough": dict(examples=1500, shards=16, seconds=2400),
}
ESSENTIAL_LABELS = {t: ["line_4", "line_7", "line_3", "line_2", "answered", "card3"] for t in ("quick", "thorough")}


@st.composite
def _case(draw, gs):
    g = draw(gs)
    part = draw(gen.labelled_partition(g["nodes"], ["X", "Y"], required=["X", "Y"]))
    # keep treatments small more often than not: big X makes everything trivially identifiable
    return {
        "g": g,
        "X": part["X"],
        "Y": part["Y"],
        "mseed": draw(st.integers(0, 2**32)),
        "max_card": draw(st.sampled_from([2, 2, 3])),
        "clique": draw(st.booleans()),
    }


def strategy(tier):
    mx = 6 if tier == "quick" else 7
    return st.one_of(
        _case(gen.with_odd_names(gen.admgs(2, mx), 6)),
        _case(gen.admgs(3, mx, bi_densities=(2, 3, 5), di_densities=(3, 5, 7))),
        _case(gen.embedded_admgs(2)),
        _case(gen.embedded_admgs(2)),
    )


class RepeatDiffers(Exception):
    pass


def run_id(graph, xs, ys):
    """Call y0; returns (estimand or None, exception or None, call counts)."""
    from y0.algorithm.identify import id_std, identify_outcomes

    from ..y0util import ReentryGuard, identification_key, one_or_many

    with CallTrace(id_std, ["line_1", "line_2", "line_3", "line_4", "line_7", "p_parents"]) as tr, ReentryGuard(id_std, "identify", identification_key) as rg:
        # a single treatment / outcome is passed bare every other time (the parameters are typed Variable | set)
        k = len(graph.nodes()) + len(xs) + 2 * len(ys) + sum(map(len, xs + ys))
        xset, yset = one_or_many([V(x) for x in xs], k), one_or_many([V(y) for y in ys], k // 2)
        try:
            est = identify_outcomes(graph, xset, yset)
            exc = None
        except Exception as e:  # noqa
            est, exc = None, e
        if exc is None:
            # the same argument objects again: the answer is a function of the query, whatever the first call did
            # to its arguments or to module-level state
            try:
                again = identify_outcomes(graph, xset, yset)
            except Exception as e:  # noqa
                again = e
            if (est is None) != (again is None) or (est is not None and (isinstance(again, Exception) or again != est)):
                exc = RepeatDiffers(f"second call with the same argument objects gave {again!r} instead of {est!r}")
    tr.calls["identify"] = rg.calls
    return est, exc, tr.calls


def compare_estimand(est, g, xs, ys, scm, conds=()):
    """None if est == P(ys | do(xs), conds) on every full assignment, else a detail dict."""
    ev = Evaluator(scm.card, lambda pop, do: scm.joint(do) if pop is None else (_ for _ in ()).throw(TypeError("population term in ID estimand")))
    names = scm.names
    for vals in itt.product(*[range(scm.card[n]) for n in names]):
        env = dict(zip(names, vals))
        t = scm.joint({x: env[x] for x in xs})
        if conds:
            truth = t.cond({y: env[y] for y in ys}, {z: env[z] for z in conds})
        else:
            truth = t.prob({y: env[y] for y in ys})
        try:
            got = ev.ev(est, env)
        except Undefined as e:
            return {"kind": "estimand-undefined-on-positive-model", "assignment": env, "why": str(e)}
        except FreeVariable as e:
            return {"kind": "free-variable-not-in-graph", "name": str(e)}
        except MultiWorld as e:
            return {"kind": "multi-world-term", "term": str(e)}
        if got != truth:
            return {"kind": "wrong-value", "assignment": env, "estimand_value": str(got), "truth": str(truth)}
    return None


def check(case) -> Outcome:
    g, xs, ys = case["g"], case["X"], case["Y"]
    graph = build_graph(g)
    out = Outcome(key=f"{graph_key(g)}|X={','.join(xs)}|Y={','.join(ys)}")
    est, exc, calls = run_id(graph, xs, ys)
    labels = set(calls) - {"identify"}
    labels.add("identify-calls:" + ("1-5" if calls.get("identify", 0) <= 5 else "6-30" if calls.get("identify", 0) <= 30 else ">30"))
    labels.add(f"n={len(g['nodes'])}")
    if g.get("motif"):
        labels.add("motif:" + g["motif"])
    touched = {x for e in g["di"] + g["bi"] for x in e}
    if set(g["nodes"]) - touched:
        labels.add("isolated-node")
    if isinstance(exc, RepeatDiffers):
        out.ok = False
        out.detail = {"kind": "answer-changes-when-the-call-is-repeated-with-the-same-objects", "graph": g, "X": xs, "Y": ys, "exc": str(exc)[:600]}
        out.labels = sorted(labels)
        return out
    if exc is not None:
        labels.add("exception(not judged here; see C02)")
        out.labels = sorted(labels)
        return out
    if est is None:
        labels.add("unidentifiable")
        out.labels = sorted(labels)
        return out
    labels.add("answered")
    text = est.to_y0()
    out.sample = {**graph_sample(g), "X": xs, "Y": ys, "estimand": text}
    if "line_7" in calls and "p_parents" in calls:
        labels.add("line7-then-line6")
    for k, mseed in enumerate([case["mseed"], case["mseed"] + 7919]):
        scm = SCM(g, mseed, max_card=case["max_card"] if k == 0 else 2, clique_mode=case["clique"] if k == 0 else not case["clique"])
        if any(c == 3 for c in scm.card.values()):
            labels.add("card3")
        if len(scm.lat) < len({frozenset(e) for e in g["bi"]}):
            labels.add("shared-latent")
        bad = compare_estimand(est, g, xs, ys, scm)
        if bad:
            out.ok = False
            out.detail = {**bad, "graph": g, "X": xs, "Y": ys, "estimand": text, "model": scm.params(), "model_index": k}
            out.labels = sorted(labels)
            return out
    out.nontrivial = bool({"line_3", "line_4", "line_7"} & set(calls)) or "Sum" in text or "/" in text
    out.labels = sorted(labels)
    return out


LEVEL_TEXT = (
    "Generated-input search with a semantic oracle: returned estimands are evaluated on exact-rational structural causal "
    "models and compared with the true interventional distribution at every assignment, for thousands of random and "
    "motif-planted ADMGs with measured coverage of the ID lines. Exploration is the right level: the claim quantifies over "
    "all graphs, queries and models, and the suite never evaluates an estimand."
)
LEVEL_NOTE = "Trusts the evaluator (vf/sem.py) and the truncated-factorisation truth (vf/model.py), both self-checked; bounded graph size and cardinalities; two models per query."
TECHNIQUE = "property-based testing (Hypothesis) with an exact-rational SCM oracle (estimand evaluated on the model vs. truncated factorisation)"
